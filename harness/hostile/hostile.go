// Package hostile generates the adversarial datagrams shared by C01, C15 and others: structure-aware
// KRPC dictionaries in which every field is independently absent / well-typed / wrongly typed /
// wrongly sized / extreme, plus byte-level mutations of those and of a seed corpus.
package hostile

import (
	"bytes"
	"fmt"
	"os"
	"path/filepath"
	"strconv"
	"strings"

	"verifharness/benc"
	"verifharness/gen"
)

// Shape kinds used in signatures.
const (
	Absent = iota
	Good
	WrongType
	WrongLen
	Extreme
	Junk
	nShapes
)

var shapeName = []string{"-", "ok", "type", "len", "ext", "junk"}

var Methods = []string{"ping", "find_node", "get_peers", "announce_peer", "get", "put", "sample_infohashes", "vote", ""}

type Gen struct {
	R *gen.Rand
	// Values a test may want hostile messages to carry so that they get past early checks.
	Token  string   // a token valid for the source, if known
	OwnID  [20]byte // the server's own ID (used as a hostile sender ID)
	Corpus [][]byte
	// When set, well-formed "k" fields use this key half of the time (so that replies to a
	// mutable get name the key the getter asked for).
	K []byte
	malformLeft int
	// How many more deliberately expensive inputs (64 MiB length prefixes, 20000-deep nesting: each
	// costs seconds under the race detector) may be produced.
	Costly int
}

// shape picks how the next field is rendered. Every message has a small budget of malformed
// fields (0-3): a message in which every field is independently broken never gets past the strict
// bencode decoder, and the handlers behind it would go unexercised.
func (g *Gen) shape() int {
	if g.malformLeft > 0 && g.R.Intn(6) == 0 {
		g.malformLeft--
		return gen.Pick(g.R, []int{WrongType, WrongLen, Extreme, Junk})
	}
	if g.R.Intn(10) < 3 {
		return Absent
	}
	return Good
}

func (g *Gen) junk(depth int) any {
	switch g.R.Intn(6) {
	case 0:
		return int64(g.R.U64())
	case 1:
		return string(g.R.Bytes(g.R.Intn(40)))
	case 2:
		if depth > 3 {
			return ""
		}
		l := benc.List{}
		for i := 0; i < g.R.Intn(4); i++ {
			l = append(l, g.junk(depth+1))
		}
		return l
	case 3:
		if depth > 3 {
			return int64(0)
		}
		d := benc.Dict{}
		for i := 0; i < g.R.Intn(4); i++ {
			d[string(g.R.Bytes(g.R.Intn(5)))] = g.junk(depth + 1)
		}
		return d
	case 4:
		return ""
	}
	return int64(-1)
}

func (g *Gen) wrongType(isString bool) any {
	if isString {
		switch g.R.Intn(3) {
		case 0:
			return int64(g.R.Intn(1000))
		case 1:
			return benc.List{"x"}
		}
		return benc.Dict{"a": int64(1)}
	}
	switch g.R.Intn(3) {
	case 0:
		return string(g.R.Bytes(g.R.Intn(9)))
	case 1:
		return benc.List{int64(1)}
	}
	return benc.Dict{}
}

// fixed-length string field (id, info_hash, target, k, sig, BFsd...)
func (g *Gen) fixedStr(d benc.Dict, key string, n int, sig *[]string) {
	s := g.shape()
	*sig = append(*sig, key+"="+shapeName[s])
	switch s {
	case Absent:
	case Good:
		d[key] = string(g.R.Bytes(n))
		if key == "k" && len(g.K) == n && g.R.Bool() {
			d[key] = string(g.K)
		}
	case WrongType:
		d[key] = g.wrongType(true)
	case WrongLen:
		d[key] = string(g.R.Bytes(gen.Pick(g.R, []int{0, 1, n - 1, n + 1, 2 * n, 3 * n})))
	case Extreme:
		if g.R.Bool() {
			d[key] = strings.Repeat("\x00", n)
		} else if n == 20 {
			d[key] = string(g.OwnID[:])
		} else {
			d[key] = strings.Repeat("\xff", n)
		}
	case Junk:
		d[key] = g.junk(0)
	}
}

func (g *Gen) intField(d benc.Dict, key string, lo, hi int64, sig *[]string) {
	s := g.shape()
	*sig = append(*sig, key+"="+shapeName[s])
	switch s {
	case Absent:
	case Good:
		d[key] = lo + int64(g.R.U64()%uint64(hi-lo+1))
	case WrongType:
		d[key] = g.wrongType(false)
	case WrongLen, Extreme:
		d[key] = gen.Pick(g.R, []int64{-1, 0, 1 << 31, 1<<63 - 1, -1 << 63, 65536, -65536})
	case Junk:
		d[key] = g.junk(0)
	}
}

func (g *Gen) strField(d benc.Dict, key string, good func() string, sig *[]string) {
	s := g.shape()
	*sig = append(*sig, key+"="+shapeName[s])
	switch s {
	case Absent:
	case Good:
		d[key] = good()
	case WrongType:
		d[key] = g.wrongType(true)
	case WrongLen:
		d[key] = ""
	case Extreme:
		d[key] = string(g.R.Bytes(gen.Pick(g.R, []int{200, 1000, 5000})))
	case Junk:
		d[key] = g.junk(0)
	}
}

func (g *Gen) compact(d benc.Dict, key string, elem int, sig *[]string) {
	s := g.shape()
	*sig = append(*sig, key+"="+shapeName[s])
	switch s {
	case Absent:
	case Good:
		d[key] = string(g.R.Bytes(elem * g.R.Intn(9)))
	case WrongType:
		d[key] = g.wrongType(true)
	case WrongLen:
		d[key] = string(g.R.Bytes(elem*g.R.Intn(4) + 1 + g.R.Intn(elem-1)))
	case Extreme:
		d[key] = string(g.R.Bytes(elem * gen.Pick(g.R, []int{64, 200})))
	case Junk:
		d[key] = g.junk(0)
	}
}

func (g *Gen) args(sig *[]string) benc.Dict {
	a := benc.Dict{}
	g.fixedStr(a, "id", 20, sig)
	g.fixedStr(a, "info_hash", 20, sig)
	g.fixedStr(a, "target", 20, sig)
	g.strField(a, "token", func() string {
		if g.Token != "" && g.R.Bool() {
			return g.Token
		}
		return string(g.R.Bytes(20))
	}, sig)
	g.intField(a, "port", 1, 65535, sig)
	g.intField(a, "implied_port", 0, 1, sig)
	{
		s := g.shape()
		*sig = append(*sig, "want="+shapeName[s])
		switch s {
		case Good:
			a["want"] = gen.Pick(g.R, []any{benc.List{"n4"}, benc.List{"n6"}, benc.List{"n4", "n6"}, benc.List{}})
		case WrongType:
			a["want"] = gen.Pick(g.R, []any{"n4", int64(4), benc.Dict{}})
		case WrongLen, Extreme:
			l := benc.List{}
			for i := 0; i < 50; i++ {
				l = append(l, "n4")
			}
			a["want"] = l
		case Junk:
			a["want"] = benc.List{int64(1), benc.List{}, "zz"}
		}
	}
	g.intField(a, "noseed", 0, 1, sig)
	g.intField(a, "scrape", 0, 1, sig)
	// BEP 44
	{
		s := g.shape()
		*sig = append(*sig, "v="+shapeName[s])
		switch s {
		case Absent:
		case Good:
			a["v"] = gen.Pick(g.R, []any{"hello", int64(7), benc.List{"a", int64(1)}, benc.Dict{"k": "v"}})
		case Extreme:
			a["v"] = string(g.R.Bytes(gen.Pick(g.R, []int{996, 997, 998, 1200, 4000})))
		default:
			a["v"] = g.junk(0)
		}
	}
	g.intField(a, "seq", 0, 100, sig)
	g.intField(a, "cas", 0, 100, sig)
	g.fixedStr(a, "k", 32, sig)
	g.strField(a, "salt", func() string { return string(g.R.Bytes(g.R.Intn(70))) }, sig)
	g.fixedStr(a, "sig", 64, sig)
	return a
}

func (g *Gen) ret(sig *[]string) benc.Dict {
	r := benc.Dict{}
	g.fixedStr(r, "id", 20, sig)
	g.compact(r, "nodes", 26, sig)
	g.compact(r, "nodes6", 38, sig)
	g.strField(r, "token", func() string { return string(g.R.Bytes(1 + g.R.Intn(20))) }, sig)
	{
		s := g.shape()
		*sig = append(*sig, "values="+shapeName[s])
		switch s {
		case Absent:
		case Good:
			l := benc.List{}
			for i := 0; i < g.R.Intn(6); i++ {
				l = append(l, string(g.R.Bytes(gen.Pick(g.R, []int{6, 18}))))
			}
			r["values"] = l
		case WrongType:
			r["values"] = gen.Pick(g.R, []any{"abcdef", int64(6), benc.Dict{}})
		case WrongLen:
			r["values"] = benc.List{string(g.R.Bytes(gen.Pick(g.R, []int{0, 1, 2, 5, 7, 17, 19})))}
		case Extreme:
			l := benc.List{}
			for i := 0; i < 300; i++ {
				l = append(l, string(g.R.Bytes(6)))
			}
			r["values"] = l
		case Junk:
			r["values"] = benc.List{int64(1), benc.List{"x"}, benc.Dict{}}
		}
	}
	g.fixedStr(r, "BFsd", 256, sig)
	g.fixedStr(r, "BFpe", 256, sig)
	g.intField(r, "interval", 0, 21600, sig)
	g.intField(r, "num", 0, 1000, sig)
	g.compact(r, "samples", 20, sig)
	{
		s := g.shape()
		*sig = append(*sig, "v="+shapeName[s])
		switch s {
		case Absent:
		case Good:
			r["v"] = gen.Pick(g.R, []any{"hello", int64(7), benc.List{"a"}})
		default:
			r["v"] = g.junk(0)
		}
	}
	g.fixedStr(r, "k", 32, sig)
	g.fixedStr(r, "sig", 64, sig)
	g.intField(r, "seq", 0, 100, sig)
	return r
}

func (g *Gen) errVal(sig *[]string) any {
	k := g.R.Intn(12)
	*sig = append(*sig, "e#"+strconv.Itoa(k))
	switch k {
	case 0:
		return benc.List{int64(201 + g.R.Intn(5)), "generic"}
	case 1:
		return benc.List{"x", int64(1)}
	case 2:
		return benc.List{}
	case 3:
		return benc.List{int64(203)}
	case 4:
		return "error as string"
	case 5:
		return int64(203)
	case 6:
		return benc.Dict{"code": int64(1)}
	case 7:
		return benc.List{int64(1), "a", "b", benc.List{}}
	}
	// any arity 0..4, every element of any type
	l := benc.List{}
	for i := 0; i < g.R.Intn(5); i++ {
		l = append(l, gen.Pick(g.R, []any{int64(201), int64(-1), "msg", "", benc.List{}, benc.List{int64(1)}, benc.Dict{}, benc.Dict{"a": "b"}}))
	}
	return l
}

// Structured returns a KRPC-shaped dictionary. kind: "q", "r", "e" or "" for any.
func (g *Gen) Structured(kind string) (b []byte, signature string) {
	var sig []string
	g.malformLeft = gen.Pick(g.R, []int{0, 0, 1, 1, 1, 2, 3})
	m := benc.Dict{}
	y := kind
	if y == "" {
		y = gen.Pick(g.R, []string{"q", "q", "q", "r", "e", "x", ""})
	}
	switch g.R.Intn(12) {
	case 0:
		sig = append(sig, "y=absent")
	case 1:
		m["y"] = int64(1)
		sig = append(sig, "y=int")
	default:
		m["y"] = y
		sig = append(sig, "y="+y)
	}
	// t
	switch k := g.R.Intn(10); k {
	case 0:
		sig = append(sig, "t=absent")
	case 1:
		m["t"] = int64(5)
		sig = append(sig, "t=int")
	case 2:
		m["t"] = ""
		sig = append(sig, "t=empty")
	case 3:
		m["t"] = string(g.R.Bytes(300))
		sig = append(sig, "t=long")
	case 4:
		m["t"] = benc.List{"aa"}
		sig = append(sig, "t=list")
	default:
		m["t"] = string(g.R.Bytes(1 + g.R.Intn(4)))
		sig = append(sig, "t=ok")
	}
	if y == "q" || g.R.Intn(8) == 0 {
		q := gen.Pick(g.R, Methods)
		switch g.R.Intn(15) {
		case 0:
			m["q"] = int64(3)
			sig = append(sig, "q=int")
		case 1:
			sig = append(sig, "q=absent")
		default:
			m["q"] = q
			sig = append(sig, "q="+q)
		}
		switch g.R.Intn(12) {
		case 0:
			sig = append(sig, "a=absent")
		case 1:
			m["a"] = gen.Pick(g.R, []any{"str", int64(1), benc.List{}})
			sig = append(sig, "a=type")
		case 2:
			m["a"] = benc.Dict{}
			sig = append(sig, "a=empty")
		default:
			m["a"] = g.args(&sig)
		}
	}
	if y == "r" || g.R.Intn(8) == 0 {
		switch g.R.Intn(10) {
		case 0:
			sig = append(sig, "r=absent")
		case 1:
			m["r"] = gen.Pick(g.R, []any{"str", int64(1), benc.List{}})
			sig = append(sig, "r=type")
		default:
			m["r"] = g.ret(&sig)
		}
	}
	if y == "e" || g.R.Intn(8) == 0 {
		m["e"] = g.errVal(&sig)
	}
	switch g.R.Intn(8) {
	case 0:
		m["ip"] = string(g.R.Bytes(gen.Pick(g.R, []int{6, 18})))
		sig = append(sig, "ip=ok")
	case 1:
		m["ip"] = gen.Pick(g.R, []any{"abc", "", int64(1), "x", benc.List{}})
		sig = append(sig, "ip=bad")
	}
	switch g.R.Intn(8) {
	case 0:
		m["ro"] = int64(1)
		sig = append(sig, "ro=1")
	case 1:
		m["ro"] = gen.Pick(g.R, []any{int64(0), int64(2), int64(-1), "1", benc.List{}})
		sig = append(sig, "ro=odd")
	}
	if g.R.Intn(8) == 0 {
		m["v"] = gen.Pick(g.R, []any{"UT\x00\x01", int64(9), benc.List{}})
		sig = append(sig, "v")
	}
	if g.R.Intn(10) == 0 {
		m[string(g.R.Bytes(3))] = g.junk(0)
		sig = append(sig, "extra")
	}
	return benc.Encode(m), strings.Join(sig, ",")
}

// Mutate applies one byte-level mutation.
func (g *Gen) Mutate(b []byte) ([]byte, string) {
	b = append([]byte(nil), b...)
	if len(b) == 0 {
		return []byte("d"), "empty"
	}
	switch k := g.R.Intn(9); k {
	case 0: // truncation
		return b[:g.R.Intn(len(b))], "trunc"
	case 1: // byte flips
		for i := 0; i <= g.R.Intn(4); i++ {
			b[g.R.Intn(len(b))] ^= 1 << uint(g.R.Intn(8))
		}
		return b, "flip"
	case 2: // length-prefix inflation: find a "NN:" and change the number
		// Rewrite the first length prefix after a random offset.
		off := g.R.Intn(len(b))
		j := bytes.IndexByte(b[off:], ':')
		if j < 0 {
			return append(b, "5:ab"...), "inflate-tail"
		}
		j += off
		i := j
		for i > 0 && b[i-1] >= '0' && b[i-1] <= '9' {
			i--
		}
		n := gen.Pick(g.R, []string{"99999", "1000000", "4294967296", "-1", "0", "18446744073709551616", "00", "67108863"})
		if n == "67108863" {
			if g.Costly <= 0 {
				n = "65536"
			}
			g.Costly--
		}
		return append(append(append([]byte(nil), b[:i]...), n...), b[j:]...), "inflate"
	case 3: // deep nesting
		depth := gen.Pick(g.R, []int{10, 100, 1000, 20000})
		if depth == 20000 {
			if g.Costly <= 0 {
				depth = 300
			}
			g.Costly--
		}
		open := gen.Pick(g.R, []string{"l", "d1:a"})
		return []byte("d1:a" + strings.Repeat(open, depth) + "e"), "nest"
	case 4: // trailing bytes
		return append(b, g.R.Bytes(1+g.R.Intn(20))...), "trail"
	case 5: // NUL run
		off := g.R.Intn(len(b))
		for i := off; i < len(b) && i < off+1+g.R.Intn(20); i++ {
			b[i] = 0
		}
		return b, "nul"
	case 6: // splice two messages
		other, _ := g.Structured("")
		cut := g.R.Intn(len(b))
		return append(b[:cut], other[g.R.Intn(len(other)):]...), "splice"
	case 7: // insert integer oddities
		s := gen.Pick(g.R, []string{"i-0e", "i00e", "ie", "i9223372036854775808e", "i-9223372036854775809e", "i1", "i 1e", "i+1e"})
		off := g.R.Intn(len(b))
		return append(append(append([]byte(nil), b[:off]...), s...), b[off:]...), "intodd"
	}
	// duplicate / unsorted keys
	return []byte("d1:y1:q1:y1:r1:t1:a1:t1:b1:q4:pinge"), "dupkeys"
}

// NonBencode and size-edge datagrams.
func (g *Gen) Raw() ([]byte, string) {
	switch g.R.Intn(8) {
	case 0:
		return nil, "len0"
	case 1:
		return []byte("d"), "len1"
	case 2:
		return []byte("de"), "de"
	case 3:
		return g.R.Bytes(gen.Pick(g.R, []int{2, 3, 100, 1400})), "random"
	case 4:
		b := g.R.Bytes(gen.Pick(g.R, []int{65535, 65536, 65000}))
		b[0] = 'd'
		return b, "huge"
	case 5:
		return []byte("d" + strings.Repeat("1:a1:b", 2000) + "e"), "manykeys"
	case 6:
		return []byte("le"), "list"
	}
	return []byte("i5e"), "int"
}

// Next returns a datagram of any class with its structural signature.
func (g *Gen) Next() ([]byte, string) {
	switch k := g.R.Intn(10); {
	case k < 5:
		return g.Structured("")
	case k < 8:
		var base []byte
		var sig string
		if len(g.Corpus) > 0 && g.R.Intn(3) == 0 {
			base = gen.Pick(g.R, g.Corpus)
			sig = "corpus"
		} else {
			base, sig = g.Structured("")
			// Keep the signature coarse for mutated messages: method and type only.
			if i := strings.Index(sig, ",a="); i > 0 {
				sig = sig[:i]
			}
			if len(sig) > 40 {
				sig = sig[:40]
			}
		}
		m, ms := g.Mutate(base)
		return m, "mut:" + ms + ":" + sig
	default:
		b, s := g.Raw()
		return b, "raw:" + s
	}
}

// LoadCorpus reads the go-fuzz seed files under dir (testdata/fuzz/<Name>/*), extracting the
// []byte("...") literals.
func LoadCorpus(dirs ...string) (out [][]byte) {
	for _, dir := range dirs {
		files, _ := filepath.Glob(filepath.Join(dir, "*"))
		for _, f := range files {
			b, err := os.ReadFile(f)
			if err != nil {
				continue
			}
			for _, line := range strings.Split(string(b), "\n") {
				line = strings.TrimSpace(line)
				if strings.HasPrefix(line, "[]byte(") && strings.HasSuffix(line, ")") {
					q := line[len("[]byte(") : len(line)-1]
					if s, err := strconv.Unquote(q); err == nil {
						out = append(out, []byte(s))
					}
				}
			}
		}
	}
	return
}

var _ = fmt.Sprint


// Reply builds a hostile reply to one of the node's own queries: the right transaction ID (so that
// it is matched), and an arbitrary subset of response fields present, absent or malformed; or an
// error / unknown-typed message. nodes lets the caller steer a traversal towards more simulated
// peers (used for the well-formed variants of the nodes field).
func (g *Gen) Reply(t string, nodes string, nodes6 string) ([]byte, string) {
	var sig []string
	g.malformLeft = gen.Pick(g.R, []int{0, 0, 1, 1, 2})
	switch g.R.Intn(12) {
	case 0:
		return benc.Encode(benc.Dict{"y": "e", "t": t, "e": g.errVal(&sig)}), "e:" + strings.Join(sig, ",")
	case 1:
		return benc.Encode(benc.Dict{"y": gen.Pick(g.R, []string{"x", "", "rr"}), "t": t, "r": g.ret(&sig)}), "unknown-y"
	case 2:
		return benc.Encode(benc.Dict{"y": "r", "t": t}), "r-absent"
	case 3:
		return benc.Encode(benc.Dict{"y": "r", "t": t, "r": gen.Pick(g.R, []any{"str", int64(1), benc.List{}})}), "r-wrong-type"
	}
	r := g.ret(&sig)
	switch g.R.Intn(6) {
	case 0, 1, 2:
		r["id"] = string(g.R.Bytes(20))
	case 3:
		// the asker's own ID, echoed back by the node it asked
		r["id"] = string(g.OwnID[:])
		sig = append(sig, "id=own")
	case 4:
		if g.R.Bool() {
			r["id"] = strings.Repeat("\x00", 20)
			sig = append(sig, "id=zero")
		}
	}
	if g.R.Intn(3) == 0 {
		r["nodes"] = nodes
	}
	if g.R.Intn(3) == 0 {
		r["nodes6"] = nodes6
	}
	m := benc.Dict{"y": "r", "t": t, "r": r}
	if g.R.Intn(5) == 0 {
		m["ro"] = int64(1)
	}
	return benc.Encode(m), "r:" + strings.Join(sig, ",")
}


// Write builds an announce_peer or put that carries the valid token (so that it gets past the token
// check into the part of the handler that uses the arguments), with every other field shaped like
// in Structured.
func (g *Gen) Write() ([]byte, string) {
	var sig []string
	g.malformLeft = gen.Pick(g.R, []int{0, 0, 1, 1, 2})
	q := gen.Pick(g.R, []string{"announce_peer", "put"})
	a := g.args(&sig)
	a["token"] = g.Token
	if _, ok := a["id"].(string); !ok || len(a["id"].(string)) != 20 {
		a["id"] = string(g.R.Bytes(20))
	}
	m := benc.Dict{"y": "q", "q": q, "t": string(g.R.Bytes(2)), "a": a}
	return benc.Encode(m), "write:" + q + "," + strings.Join(sig, ",")
}
