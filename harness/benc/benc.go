// Package benc is a small bencode codec that shares no code with the library under test. The
// monitors use it to build the datagrams they inject and to decode the datagrams they capture, so
// that a defect in the library's codec cannot hide itself.
package benc

import (
	"errors"
	"fmt"
	"sort"
	"strconv"
)

// Values: int64, string (raw bytes), []any, map[string]any.
type Dict = map[string]any
type List = []any

func Encode(v any) []byte { return appendVal(nil, v) }

func appendVal(b []byte, v any) []byte {
	switch x := v.(type) {
	case int:
		return append(append(append(b, 'i'), strconv.FormatInt(int64(x), 10)...), 'e')
	case int64:
		return append(append(append(b, 'i'), strconv.FormatInt(x, 10)...), 'e')
	case string:
		return append(append(append(b, strconv.Itoa(len(x))...), ':'), x...)
	case []byte:
		return append(append(append(b, strconv.Itoa(len(x))...), ':'), x...)
	case [20]byte:
		return append(append(b, "20:"...), x[:]...)
	case []any:
		b = append(b, 'l')
		for _, e := range x {
			b = appendVal(b, e)
		}
		return append(b, 'e')
	case map[string]any:
		keys := make([]string, 0, len(x))
		for k := range x {
			keys = append(keys, k)
		}
		sort.Strings(keys)
		b = append(b, 'd')
		for _, k := range keys {
			b = appendVal(b, k)
			b = appendVal(b, x[k])
		}
		return append(b, 'e')
	case Raw:
		return append(b, x...)
	default:
		panic(fmt.Sprintf("benc: cannot encode %T", v))
	}
}

// Raw is spliced into the output verbatim (for deliberately malformed pieces).
type Raw []byte

var ErrSyntax = errors.New("benc: syntax error")

// Decode parses exactly one value and returns the number of bytes consumed.
func Decode(b []byte) (v any, n int, err error) {
	defer func() {
		if r := recover(); r != nil {
			err = ErrSyntax
		}
	}()
	v, n = parse(b, 0, 0)
	return
}

// DecodeDict decodes a top-level dictionary, tolerating trailing bytes.
func DecodeDict(b []byte) (Dict, error) {
	v, _, err := Decode(b)
	if err != nil {
		return nil, err
	}
	d, ok := v.(map[string]any)
	if !ok {
		return nil, ErrSyntax
	}
	return d, nil
}

func parse(b []byte, i int, depth int) (any, int) {
	if depth > 200 {
		panic("depth")
	}
	switch c := b[i]; {
	case c == 'i':
		j := i + 1
		for b[j] != 'e' {
			j++
		}
		n, err := strconv.ParseInt(string(b[i+1:j]), 10, 64)
		if err != nil {
			panic(err)
		}
		return n, j + 1
	case c >= '0' && c <= '9':
		j := i
		for b[j] != ':' {
			j++
		}
		l, err := strconv.Atoi(string(b[i:j]))
		if err != nil || l < 0 || j+1+l > len(b) {
			panic("len")
		}
		return string(b[j+1 : j+1+l]), j + 1 + l
	case c == 'l':
		out := []any{}
		i++
		for b[i] != 'e' {
			var v any
			v, i = parse(b, i, depth+1)
			out = append(out, v)
		}
		return out, i + 1
	case c == 'd':
		out := map[string]any{}
		i++
		for b[i] != 'e' {
			var k, v any
			k, i = parse(b, i, depth+1)
			ks, ok := k.(string)
			if !ok {
				panic("key")
			}
			v, i = parse(b, i, depth+1)
			out[ks] = v
		}
		return out, i + 1
	}
	panic("syntax")
}

// Helpers for picking typed members out of decoded dicts.
func Str(d Dict, k string) (string, bool) {
	s, ok := d[k].(string)
	return s, ok
}

func Int(d Dict, k string) (int64, bool) {
	s, ok := d[k].(int64)
	return s, ok
}

func Sub(d Dict, k string) (Dict, bool) {
	s, ok := d[k].(map[string]any)
	return s, ok
}

func Lst(d Dict, k string) ([]any, bool) {
	s, ok := d[k].([]any)
	return s, ok
}
