package trav

import (
	"fmt"
	"sync"
	"sync/atomic"
	"time"

	"github.com/anacrolix/dht/v2/traversal"

	"verifharness/census"
	"verifharness/gen"
)

// EnumChooser enumerates every sequence of choices (depth-first odometer).
type EnumChooser struct {
	prefix []int
	widths []int
	pos    int
}

func (e *EnumChooser) Choose(n int, what string) int {
	if e.pos < len(e.prefix) {
		v := e.prefix[e.pos]
		e.widths[e.pos] = n
		e.pos++
		if v >= n {
			v = n - 1
		}
		return v
	}
	e.prefix = append(e.prefix, 0)
	e.widths = append(e.widths, n)
	e.pos++
	return 0
}

// Next advances to the next schedule; false when the space is exhausted.
func (e *EnumChooser) Next() bool {
	e.prefix = e.prefix[:e.pos]
	e.widths = e.widths[:e.pos]
	for i := len(e.prefix) - 1; i >= 0; i-- {
		if e.prefix[i]+1 < e.widths[i] {
			e.prefix = e.prefix[:i+1]
			e.widths = e.widths[:i+1]
			e.prefix[i]++
			e.pos = 0
			return true
		}
	}
	return false
}

// InstallYield widens the two windows of the wake-up protocol that contain no call-out: with
// probability 1/4 the goroutine that has just released op.mu sleeps 0-50us before it blocks.
func InstallYield(seed uint64) {
	var ctr atomic.Uint64
	ctr.Store(seed)
	traversal.VerifSetYield(func(point int) {
		x := ctr.Add(0x9e3779b97f4a7c15)
		x ^= x >> 31
		x *= 0xbf58476d1ce4e5b9
		x ^= x >> 29
		// point 1 (run loop, between Unlock and its select) is where a decision taken under the lock
		// can go stale: dwell there often and for longer; point 2 (Stop's waiter) as before
		if point == 1 && x&1 == 0 {
			time.Sleep(time.Duration(x>>8%150) * time.Microsecond)
		} else if x&3 == 0 {
			time.Sleep(time.Duration(x>>8%50) * time.Microsecond)
		}
	})
}

func RemoveYield() { traversal.VerifSetYield(nil) }

// RunFree runs one lookup free-running: queries answer by themselves after 0-200us, late adds and
// Stop come from other goroutines. Oracles: the online C04 assertions, "no query was in flight over
// the whole stall rendezvous", the full stall predicate and result-set checks on the stable end
// state, bounded progress.
func (l *Lookup) RunFree(r *gen.Rand) (out Outcome) {
	l.Free = true
	var dmu sync.Mutex
	dr := r.Fork("delay")
	l.freeDelay = func() time.Duration {
		dmu.Lock()
		defer dmu.Unlock()
		return time.Duration(dr.Intn(200)) * time.Microsecond
	}
	mode := r.Intn(4)
	if mode == 3 {
		l.stopInside = 1 + r.Intn(6)
		l.stopInsideDone = make(chan struct{})
	}
	l.Start()
	var adders sync.WaitGroup
	for _, b := range l.Net.Late {
		b := b
		d := time.Duration(r.Intn(400)) * time.Microsecond
		adders.Add(1)
		go func() {
			defer adders.Done()
			time.Sleep(d)
			l.mu.Lock()
			for _, a := range b {
				l.learnLocked(a)
			}
			l.mu.Unlock()
			l.Op.AddNodes(b)
		}()
	}
	waitStall := func(limit time.Duration) (ok bool) {
		t0 := l.tick.Load()
		select {
		case <-l.Op.Stalled():
		case <-time.After(limit):
			return false
		}
		t1 := l.tick.Add(1)
		out.Stalls++
		l.mu.Lock()
		for _, c := range l.calls {
			if x := c.exit.Load(); c.enter < t0 && (x == 0 || x > t1) {
				l.find("C03", "stalled-with-queries-in-flight", fmt.Sprintf("free-running: query to %v was in flight during the whole stall rendezvous", c.addr))
			}
		}
		l.mu.Unlock()
		return true
	}
	stuck := func(what string) {
		s := l.Op.VerifSnapshot()
		time.Sleep(time.Second)
		s2 := l.Op.VerifSnapshot()
		l.mu.Lock()
		act := l.active
		if s == s2 && (mustMove(s, 0, act, l.Net.Alpha) != "" || !s.Stopping && s.Outstanding == 0 && !s.HaveQuery && act == 0) {
			l.find("C03", "no-progress:"+what, fmt.Sprintf("free-running: state %+v unchanged for >20s; goroutines:\n%s", s, truncate(census.Dump(census.Module(nil)), 4000)))
			out.Err = errWatchdog
		} else {
			out.Err = fmt.Errorf("inconclusive: %s not seen within the watchdog, state %+v -> %+v", what, s, s2)
		}
		l.mu.Unlock()
	}
	switch mode {
	case 0, 1:
		if mode == 1 {
			// First rendezvous while adders may still be running: only the in-flight clause.
			if !waitStall(20 * time.Second) {
				stuck("stall-never-reported")
				l.Op.Stop()
				return
			}
		}
		adders.Wait()
		if !waitStall(20 * time.Second) {
			stuck("stall-never-reported")
			l.Op.Stop()
			return
		}
		// No external adds any more. The run loop offers the signal after it has released its lock,
		// so an offer it decided on just before the last AddNodes can still be delivered now: in that
		// case the loop has work to do (or has already started it) and the signal will come again.
		for tries := 0; ; tries++ {
			s := l.Op.VerifSnapshot()
			l.mu.Lock()
			if s.Outstanding == 0 && !s.HaveQuery && l.active == 0 {
				l.checkStallLocked(quiet{s, 0})
				l.checkResultSetLocked("at stall (free-running)")
				if l.Net.Truthful {
					l.checkTruthfulLocked()
				}
				l.mu.Unlock()
				break
			}
			if tries == 0 {
				l.find("C03", "stalled-reported-although-a-late-add-had-already-returned", fmt.Sprintf(
					"free-running: every AddNodes call had returned before the consumer began to wait, yet stalled was reported while a learned, filter-passing contact was still unqueried (state right after the report: %+v)", s))
			}
			l.mu.Unlock()
			if tries > 1000 {
				out.Err = fmt.Errorf("inconclusive: stalled keeps firing in a non-stalled state")
				break
			}
			if !waitStall(20 * time.Second) {
				stuck("stall-never-reported")
				l.Op.Stop()
				return
			}
		}
		l.mu.Lock()
		l.stopCalled = true
		l.mu.Unlock()
		l.Op.Stop()
	case 3:
		// Stop comes from inside DoQuery; a lookup that runs dry before that query exists is
		// stopped from here.
		select {
		case <-l.stopInsideDone:
			out.StopsFromInside++
		case <-l.Op.Stalled():
			l.Op.Stop()
		case <-time.After(20 * time.Second):
			stuck("neither-stalled-nor-reached-the-stopping-query")
			l.Op.Stop()
			return
		}
		adders.Wait()
	case 2:
		time.Sleep(time.Duration(r.Intn(600)) * time.Microsecond)
		// Stop while queries and adds are in progress.
		l.Op.Stop()
		adders.Wait()
	}
	select {
	case <-l.Op.Stopped():
		out.Stopped = true
		l.stoppedAt.Store(l.tick.Add(1))
	case <-time.After(20 * time.Second):
		stuck("stopped-never-reported")
		return
	}
	if l.SlowFilter {
		// leave room for a straggler to show itself
		time.Sleep(300 * time.Microsecond)
	}
	s := l.Op.VerifSnapshot()
	l.mu.Lock()
	if s.Outstanding != 0 {
		l.find("C03", "stopped-with-queries-in-flight", fmt.Sprintf("Stopped() fired with %d queries in flight", s.Outstanding))
	}
	if l.active == 0 {
		l.checkResultSetLocked("at stopped (free-running)")
	}
	out.MaxActive, out.Queries = l.maxActive, len(l.calls)
	l.mu.Unlock()
	return
}
