// Package trav is the schedule explorer for traversal.Operation shared by C02, C03 and C04: a
// simulated response graph, a DoQuery that parks every call until the controller releases it, and
// the oracles evaluated at quiescent points.
package trav

import (
	"fmt"
	"net/netip"

	"github.com/anacrolix/dht/v2/types"

	"verifharness/gen"
	"verifharness/ref"
)

type SimNode struct {
	Addr    netip.AddrPort
	AdvID   [20]byte // the ID honest nodes list it under
	ReplyID [20]byte // the ID it answers with
	Silent  bool     // never answers (time-out)
	Data    any      // token it returns: string, int (non-string) or nil
	Lists   []Listed // what it lists as neighbours
	NoResp  bool     // returns neighbours but no response body (error-typed reply with nodes)
}

type Listed struct {
	Addr netip.AddrPort
	ID   [20]byte
}

type Net struct {
	Target     [20]byte
	K, Alpha   int
	Nodes      map[netip.AddrPort]*SimNode
	Order      []*SimNode
	Seeds      []types.AddrMaybeId
	Late       [][]types.AddrMaybeId // batches available for late AddNodes
	FilterKind string
	DataKind   string
	Class      string
	Truthful   bool
	Blocked    map[netip.Addr]bool // addresses the node filter rejects
}

// NodeFilter is the harness's own copy of the filter handed to the operation.
func (n *Net) NodeFilter(a types.AddrMaybeId) bool {
	switch n.FilterKind {
	case "none":
		return true
	case "addr":
		return a.Addr.Port() != 0 && !n.Blocked[a.Addr.Addr()]
	case "id":
		// Rejects known IDs whose last bit is set (stands in for BEP 42 enforcement: depends on the
		// ID, passes ID-less contacts), plus the address rules.
		if a.Addr.Port() == 0 || n.Blocked[a.Addr.Addr()] {
			return false
		}
		if a.Id.Ok {
			id := a.Id.Value.AsByteArray()
			return id[19]&1 == 0
		}
		return true
	}
	panic("filter kind")
}

func (n *Net) DataFilter(d any) bool {
	switch n.DataKind {
	case "none":
		return true
	case "string":
		_, ok := d.(string)
		return ok
	}
	panic("data kind")
}

func addrOf(r *gen.Rand, form int) netip.Addr {
	switch form % 3 {
	case 0:
		a, _ := netip.AddrFromSlice(r.PublicIPv4())
		return a
	case 1:
		a, _ := netip.AddrFromSlice(r.PublicIPv6())
		return a
	}
	a, _ := netip.AddrFromSlice(gen.V4Mapped(r.PublicIPv4()))
	return a
}

func ami(addr netip.AddrPort, id *[20]byte) types.AddrMaybeId { return mkAmi(addr, id) }

// GenNet builds a response graph. class selects the emphasis:
//
//	truthful    every node answers with the true K closest of the network, no filters trip
//	mixed       silent nodes, liars, duplicate IDs, filtered addresses, non-string data
//	victim      adversarial for C04: one address listed under many IDs, across replies and seeds,
//	            in 4-byte and v4-mapped forms, plus filtered addresses
//	tiny        N <= 5 for exhaustive schedule enumeration
func GenNet(r *gen.Rand, class string) *Net {
	n := &Net{Target: r.ID(), Nodes: map[netip.AddrPort]*SimNode{}, Class: class, Blocked: map[netip.Addr]bool{}}
	n.K = gen.Pick(r, []int{1, 2, 3, 4, 8, 8, 16})
	n.Alpha = gen.Pick(r, []int{1, 2, 3, 3, 4, 8})
	size := r.Range(1, 40)
	if r.Intn(6) == 0 {
		size = r.Range(40, 60)
	}
	n.FilterKind = gen.Pick(r, []string{"none", "addr", "id"})
	n.DataKind = gen.Pick(r, []string{"none", "string"})
	if class == "tiny" {
		size = r.Range(1, 5)
		n.Alpha = r.Range(1, 3)
		n.K = r.Range(1, 3)
	}
	if class == "small" {
		size = r.Range(4, 7)
		n.Alpha = r.Range(2, 3)
		n.K = r.Range(1, 4)
	}
	if class == "truthful" {
		n.FilterKind, n.DataKind = "none", "none"
		n.Truthful = true
	}
	// IDs: drawn by shared-prefix length with the target so that ties and near-ties are common.
	prefix := func() int {
		switch r.Intn(4) {
		case 0:
			return r.Intn(160)
		case 1:
			return 150 + r.Intn(10)
		}
		return r.Intn(24)
	}
	usedID := map[[20]byte]bool{}
	for i := 0; i < size; i++ {
		id := r.IDWithPrefix(n.Target, prefix())
		ap := netip.AddrPortFrom(addrOf(r, r.Intn(3)), uint16(r.Port()))
		if _, dup := n.Nodes[ap]; dup {
			continue
		}
		if class == "truthful" {
			// Unique IDs, so that "the K closest" is one definite set.
			if usedID[id] {
				continue
			}
			usedID[id] = true
		}
		sn := &SimNode{Addr: ap, AdvID: id, ReplyID: id, Data: fmt.Sprintf("tok-%d", i)}
		n.Nodes[ap] = sn
		n.Order = append(n.Order, sn)
	}
	if class != "truthful" {
		for _, sn := range n.Order {
			switch r.Intn(12) {
			case 0, 1:
				sn.Silent = true
			case 2:
				sn.ReplyID = r.ID() // answers with another ID than it is known by
			case 3:
				sn.Data = 7 // non-string token
			case 4:
				sn.Data = nil
			case 5:
				if len(n.Order) > 1 { // duplicate ID: same ID as another node
					o := gen.Pick(r, n.Order)
					sn.AdvID, sn.ReplyID = o.AdvID, o.ReplyID
				}
			case 6:
				sn.NoResp = true
			case 7:
				sn.ReplyID[19] |= 1 // fails the "id" filter on its replied ID only
			}
			if n.FilterKind != "none" && r.Intn(10) == 0 {
				n.Blocked[sn.Addr.Addr()] = true
			}
		}
	}
	// Neighbour lists.
	all := make([][20]byte, 0, len(n.Order))
	byID := map[[20]byte][]*SimNode{}
	for _, sn := range n.Order {
		all = append(all, sn.AdvID)
		byID[sn.AdvID] = append(byID[sn.AdvID], sn)
	}
	if class == "truthful" {
		sorted := append([]*SimNode(nil), n.Order...)
		sortNodes(sorted, n.Target)
		top := sorted
		if len(top) > n.K {
			top = top[:n.K]
		}
		for _, sn := range n.Order {
			for _, o := range top {
				sn.Lists = append(sn.Lists, Listed{o.Addr, o.AdvID})
			}
		}
	} else {
		for _, sn := range n.Order {
			cnt := r.Intn(9)
			for j := 0; j < cnt && len(n.Order) > 0; j++ {
				o := gen.Pick(r, n.Order)
				l := Listed{o.Addr, o.AdvID}
				switch r.Intn(14) {
				case 0:
					l.ID = r.ID() // real address under a fabricated ID
				case 1:
					l.Addr = netip.AddrPortFrom(addrOf(r, r.Intn(3)), uint16(r.Port())) // fabricated address
				case 2:
					l.Addr = netip.AddrPortFrom(o.Addr.Addr(), 0) // port 0
				}
				sn.Lists = append(sn.Lists, l)
			}
		}
	}
	if class == "victim" && len(n.Order) > 0 {
		// One victim address under 2..16 IDs: in one reply, across replies, in the seeds, and as
		// 4-byte vs v4-mapped form of the same host.
		v4, _ := netip.AddrFromSlice(r.PublicIPv4())
		victim := netip.AddrPortFrom(v4, uint16(r.Port()))
		if r.Bool() {
			vm, _ := netip.AddrFromSlice(gen.V4Mapped(v4.AsSlice()))
			victim = netip.AddrPortFrom(vm, victim.Port())
		}
		vn := &SimNode{Addr: victim, AdvID: r.IDWithPrefix(n.Target, prefix()), Data: "tok-victim"}
		vn.ReplyID = vn.AdvID
		if r.Intn(3) == 0 {
			vn.Silent = true
		}
		n.Nodes[victim] = vn
		n.Order = append(n.Order, vn)
		reps := r.Range(2, 16)
		for j := 0; j < reps; j++ {
			lister := gen.Pick(r, n.Order)
			id := r.IDWithPrefix(n.Target, prefix())
			if r.Intn(3) == 0 {
				id = r.IDWithPrefix(vn.AdvID, 150+r.Intn(9)) // adjacent in distance order
			}
			lister.Lists = append(lister.Lists, Listed{victim, id})
			if j%3 == 0 {
				first := n.Order[0]
				first.Lists = append(first.Lists, Listed{victim, id})
			}
		}
		if r.Bool() {
			for j := 0; j < r.Range(1, 4); j++ {
				id := r.IDWithPrefix(n.Target, prefix())
				n.Seeds = append(n.Seeds, ami(victim, &id))
			}
			n.Seeds = append(n.Seeds, ami(victim, nil))
		}
	}
	// Seeds: a few nodes, with and without IDs.
	ns := r.Range(1, 4)
	for j := 0; j < ns && len(n.Order) > 0; j++ {
		o := gen.Pick(r, n.Order)
		if r.Bool() {
			n.Seeds = append(n.Seeds, ami(o.Addr, nil))
		} else {
			id := o.AdvID
			n.Seeds = append(n.Seeds, ami(o.Addr, &id))
		}
	}
	// Late batches.
	if class != "truthful" && class != "tiny" && class != "small" {
		for j := 0; j < r.Intn(4); j++ {
			var b []types.AddrMaybeId
			for k := 0; k < r.Range(1, 4); k++ {
				o := gen.Pick(r, n.Order)
				if r.Intn(3) == 0 {
					b = append(b, ami(o.Addr, nil))
				} else {
					id := o.AdvID
					if r.Intn(4) == 0 {
						id = r.IDWithPrefix(n.Target, prefix())
					}
					b = append(b, ami(o.Addr, &id))
				}
			}
			n.Late = append(n.Late, b)
		}
	}
	return n
}

func sortNodes(ns []*SimNode, t [20]byte) {
	for i := 1; i < len(ns); i++ {
		for j := i; j > 0 && ref.CmpDist(ns[j].AdvID, ns[j-1].AdvID, t) < 0; j-- {
			ns[j], ns[j-1] = ns[j-1], ns[j]
		}
	}
}
