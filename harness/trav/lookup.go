package trav

import (
	"context"
	"fmt"
	"net/netip"
	"runtime"
	"sort"
	"strings"
	"sync"
	"sync/atomic"
	"time"

	"github.com/anacrolix/dht/v2/int160"
	k_nearest_nodes "github.com/anacrolix/dht/v2/k-nearest-nodes"
	"github.com/anacrolix/dht/v2/krpc"
	"github.com/anacrolix/dht/v2/traversal"
	"github.com/anacrolix/dht/v2/types"
	"github.com/anacrolix/generics"

	"verifharness/census"
	"verifharness/gen"
	"verifharness/ref"
)

func init() {
	_ = generics.Some[int]
}

// Finding is a refutation of one of the three traversal properties.
type Finding struct {
	Prop      string
	Signature string
	Detail    string
}

type call struct {
	addr    netip.AddrPort
	ctx     context.Context
	release chan traversal.QueryResult
	enter   int64
	exit    atomic.Int64
}

type learnedPair struct {
	addr netip.AddrPort
	id   *[20]byte
}

type responder struct {
	addr netip.AddrPort
	id   [20]byte
	data any
	ok   bool // passes both filters on what it replied
}

type Lookup struct {
	Net  *Net
	Op   *traversal.Operation
	Free bool // free-running: DoQuery answers by itself after a delay

	mu         sync.Mutex
	blocked    []*call
	active     int
	maxActive  int
	queried    map[netip.AddrPort]int // address as reported (4-byte and v4-mapped forms are distinct) -> times seen by DoQuery
	learned    []learnedPair
	responders []responder
	calls      []*call
	findings   []Finding
	tick       atomic.Int64
	stopCalled bool
	Trace      []string // action sequence (the schedule)

	freeRand  *gen.Rand
	freeDelay func() time.Duration
	// stopInside > 0 (free-running only): the stopInside-th query calls Stop from inside DoQuery, and
	// that query and every later one then wait for their context to be cancelled.
	stopInside     int
	stopInsideDone chan struct{}
	// SlowFilter makes the node filter (which the operation calls with its lock held) dawdle now and
	// then, so that other goroutines queue up on the operation's lock.
	SlowFilter bool
	slowCtr    atomic.Uint64
	stoppedAt  atomic.Int64 // tick at which Stopped() was observed, 0 = not yet
}

func (l *Lookup) find(prop, sig, detail string) {
	l.findings = append(l.findings, Finding{prop, sig, fmt.Sprintf("%s\nnet: class=%s K=%d Alpha=%d filter=%s data=%s nodes=%d target=%x\nschedule: %s",
		detail, l.Net.Class, l.Net.K, l.Net.Alpha, l.Net.FilterKind, l.Net.DataKind, len(l.Net.Order), l.Net.Target, strings.Join(l.Trace, " "))})
}

func (l *Lookup) Findings() []Finding {
	l.mu.Lock()
	defer l.mu.Unlock()
	return append([]Finding(nil), l.findings...)
}

func mkAmi(addr netip.AddrPort, id *[20]byte) types.AddrMaybeId {
	a := types.AddrMaybeId{Addr: krpc.NodeAddrPort{AddrPort: addr}}
	if id != nil {
		a.Id = generics.Some(int160.FromByteArray(*id))
	}
	return a
}

func (l *Lookup) learnLocked(a types.AddrMaybeId) {
	p := learnedPair{addr: a.Addr.AddrPort}
	if a.Id.Ok {
		id := a.Id.Value.AsByteArray()
		p.id = &id
	}
	l.learned = append(l.learned, p)
}

// answer computes what the simulated network replies to a query sent to addr.
func (l *Lookup) answer(addr netip.AddrPort, timeout bool) (res traversal.QueryResult) {
	sn := l.Net.Nodes[addr]
	if sn == nil || sn.Silent || timeout {
		return
	}
	for _, li := range sn.Lists {
		ni := krpc.NodeInfo{ID: li.ID, Addr: krpc.NodeAddrPort{AddrPort: li.Addr}.ToNodeAddr()}
		if li.Addr.Addr().Is4() {
			res.Nodes = append(res.Nodes, ni)
		} else {
			res.Nodes6 = append(res.Nodes6, ni)
		}
	}
	if sn.NoResp {
		return
	}
	res.ResponseFrom = &krpc.NodeInfo{ID: sn.ReplyID, Addr: krpc.NodeAddrPort{AddrPort: addr}.ToNodeAddr()}
	res.ClosestData = sn.Data
	return
}

// recordAnswer notes, before the reply is handed to the operation, what the operation is about to
// learn from it.
func (l *Lookup) recordAnswerLocked(addr netip.AddrPort, res traversal.QueryResult) {
	for _, lst := range [][]krpc.NodeInfo{res.Nodes, res.Nodes6} {
		for _, ni := range lst {
			id := [20]byte(ni.ID)
			l.learnLocked(mkAmi(ni.Addr.ToNodeAddrPort().AddrPort, &id))
		}
	}
	if res.ResponseFrom != nil {
		id := [20]byte(res.ResponseFrom.ID)
		ok := l.Net.NodeFilter(mkAmi(addr, &id)) && l.Net.DataFilter(res.ClosestData)
		l.responders = append(l.responders, responder{addr, id, res.ClosestData, ok})
	}
}

func (l *Lookup) doQuery(ctx context.Context, a krpc.NodeAddr) traversal.QueryResult {
	addr := a.ToNodeAddrPort().AddrPort
	c := &call{addr: addr, ctx: ctx, release: make(chan traversal.QueryResult, 1)}
	l.mu.Lock()
	c.enter = l.tick.Add(1)
	l.active++
	if l.active > l.maxActive {
		l.maxActive = l.active
	}
	if l.active > l.Net.Alpha {
		l.find("C04", "more-than-alpha-in-flight", fmt.Sprintf("%d queries in flight with Alpha=%d (query to %v)", l.active, l.Net.Alpha, addr))
	}
	l.queried[addr]++
	if l.queried[addr] > 1 {
		l.find("C04", "address-queried-more-than-once", fmt.Sprintf("%v queried %d times", addr, l.queried[addr]))
	}
	pass, known := false, false
	for _, p := range l.learned {
		if p.addr == addr {
			known = true
			if l.Net.NodeFilter(mkAmi(p.addr, p.id)) {
				pass = true
			}
		}
	}
	if !known {
		l.find("C04", "query-to-address-never-learned", fmt.Sprintf("%v was queried but never handed to the lookup", addr))
	} else if !pass {
		l.find("C04", "query-to-filtered-address", fmt.Sprintf("%v was queried although the node filter rejects it under every ID it was reported with", addr))
	}
	if at := l.stoppedAt.Load(); at != 0 && c.enter > at {
		// Stopped() has fired: the operation is over; nothing may start any more.
		l.find("C03", "query-started-after-stopped-was-signalled", fmt.Sprintf("query to %v started after Stopped() had fired", addr))
	}
	if l.stopCalled && !l.Free {
		// Controlled mode only: Stop was called at a quiescent point (the run loop was past its
		// fan-out loop), so no query may start after it. Free-running, Stop can legitimately race
		// with a fan-out loop already under way.
		l.find("C03", "query-started-after-stop", fmt.Sprintf("query to %v started after Stop", addr))
	}
	l.calls = append(l.calls, c)
	if l.Free && l.stopInside > 0 && len(l.calls) >= l.stopInside {
		// The application stops the lookup from inside one of its queries (it found what it was
		// looking for). That query, and every query that is in flight then or is started by a fan-out
		// already under way, has its context cancelled: none of them is answered, each waits for that.
		idx := len(l.calls)
		res := l.answer(addr, true)
		l.mu.Unlock()
		if idx == l.stopInside {
			l.Op.Stop()
			close(l.stopInsideDone)
		}
		select {
		case <-ctx.Done():
		case <-time.After(15 * time.Second):
			<-l.stopInsideDone
			select {
			case <-ctx.Done():
			case <-time.After(5 * time.Second):
				l.mu.Lock()
				l.find("C04", "query-in-flight-at-stop-never-cancelled", fmt.Sprintf(
					"free-running: query #%d to %v was in flight when query #%d called Stop from inside DoQuery; 20s later its context is still live", idx, addr, l.stopInside))
				l.mu.Unlock()
			}
		}
		l.mu.Lock()
		l.active--
		c.exit.Store(l.tick.Add(1))
		l.mu.Unlock()
		return res
	}
	if l.Free {
		d := l.freeDelay()
		res := l.answer(addr, false)
		l.recordAnswerLocked(addr, res)
		l.mu.Unlock()
		if d > 0 {
			select {
			case <-time.After(d):
			case <-ctx.Done():
			}
		}
		l.mu.Lock()
		l.active--
		c.exit.Store(l.tick.Add(1))
		l.mu.Unlock()
		return res
	}
	l.blocked = append(l.blocked, c)
	l.mu.Unlock()
	res := <-c.release
	l.mu.Lock()
	l.active--
	c.exit.Store(l.tick.Add(1))
	l.mu.Unlock()
	return res
}

func NewLookup(n *Net) *Lookup {
	l := &Lookup{Net: n, queried: map[netip.AddrPort]int{}}
	return l
}

func (l *Lookup) Start() {
	in := traversal.OperationInput{Target: l.Net.Target, Alpha: l.Net.Alpha, K: l.Net.K, DoQuery: l.doQuery}
	if l.Net.FilterKind != "none" {
		in.NodeFilter = l.Net.NodeFilter
	}
	if l.SlowFilter {
		inner := l.Net.NodeFilter
		in.NodeFilter = func(a types.AddrMaybeId) bool {
			if x := l.slowCtr.Add(0x9e3779b97f4a7c15); (x>>7)%8 == 0 {
				time.Sleep(time.Duration(x>>20%120) * time.Microsecond)
			}
			return inner(a)
		}
	}
	if l.Net.DataKind != "none" {
		in.DataFilter = l.Net.DataFilter
	}
	l.Op = traversal.Start(in)
	l.mu.Lock()
	for _, s := range l.Net.Seeds {
		l.learnLocked(s)
	}
	l.mu.Unlock()
	l.Op.AddNodes(l.Net.Seeds)
}

type quiet struct {
	snap    traversal.VerifSnapshot
	blocked int
}

var errWatchdog = fmt.Errorf("watchdog")

// Progress states: from these the protocol must move without outside help.
func mustMove(s traversal.VerifSnapshot, blocked, active, alpha int) string {
	switch {
	case s.Stopped:
		return ""
	case s.Stopping && s.Outstanding == 0:
		return "stopping with nothing in flight but not stopped"
	case s.Stopping:
		return ""
	case s.Outstanding < alpha && s.HaveQuery && active == s.Outstanding:
		return "candidate available and fan-out free but no query started"
	}
	return ""
}

// waitQuiescent polls until the operation can only change through a controller action.
func (l *Lookup) waitQuiescent() (q quiet, err error) {
	deadline := time.Now().Add(20 * time.Second)
	spins := 0
	for {
		// The operation's state and the harness's state are read under different locks. The reads
		// describe one instant only if no query entered or left the harness in between.
		t0 := l.tick.Load()
		s := l.Op.VerifSnapshot()
		l.mu.Lock()
		nb, act := len(l.blocked), l.active
		stable := l.tick.Load() == t0
		l.mu.Unlock()
		if stable && s.Stopped && act == 0 {
			return quiet{s, nb}, nil
		}
		if stable && nb == s.Outstanding && act == nb && (s.Outstanding >= l.Net.Alpha || !s.HaveQuery || s.Stopping) && !(s.Stopping && s.Outstanding == 0) {
			return quiet{s, nb}, nil
		}
		spins++
		if spins < 200 {
			runtime.Gosched()
		} else {
			time.Sleep(20 * time.Microsecond)
		}
		if spins%5000 == 0 && time.Now().After(deadline) {
			// Decide between "stuck" and "slow" on logical state: the same must-move state twice,
			// one second apart.
			why := mustMove(s, nb, act, l.Net.Alpha)
			time.Sleep(time.Second)
			s2 := l.Op.VerifSnapshot()
			l.mu.Lock()
			nb2, act2 := len(l.blocked), l.active
			l.mu.Unlock()
			if why != "" && s2 == s && nb2 == nb && act2 == act {
				dump := census.Dump(census.Module(nil))
				l.mu.Lock()
				l.find("C03", "no-progress:"+why, fmt.Sprintf("state %+v blocked=%d active=%d unchanged for >20s; goroutines:\n%s", s, nb, act, truncate(dump, 4000)))
				l.mu.Unlock()
				return quiet{s, nb}, errWatchdog
			}
			if s2 == s && nb2 == nb && act2 == act {
				return quiet{s, nb}, fmt.Errorf("inconclusive: no quiescence after 20s in state %+v blocked=%d active=%d", s, nb, act)
			}
			deadline = time.Now().Add(20 * time.Second)
		}
	}
}

func truncate(s string, n int) string {
	if len(s) > n {
		return s[:n] + "..."
	}
	return s
}

// closest reads the result set. Callers must have taken a snapshot since the last change.
func (l *Lookup) closest() (out []k_nearest_nodes.Elem) {
	l.Op.Closest().Range(func(e k_nearest_nodes.Elem) { out = append(out, e) })
	return
}

// checkResultSet is the C02 oracle.
func (l *Lookup) checkResultSetLocked(when string) {
	set := l.closest()
	if len(set) > l.Net.K {
		l.find("C02", "result-set-larger-than-k", fmt.Sprintf("%s: %d members, K=%d", when, len(set), l.Net.K))
	}
	type key struct {
		addr netip.AddrPort
		id   [20]byte
	}
	resp := map[key]responder{}
	for _, r := range l.responders {
		resp[key{r.addr, r.id}] = r
	}
	member := map[key]bool{}
	for i, e := range set {
		k := key{e.Addr.AddrPort, e.ID}
		member[k] = true
		r, ok := resp[k]
		if !ok {
			l.find("C02", "member-never-answered", fmt.Sprintf("%s: member %x@%v did not answer a query of this lookup with that ID", when, e.ID, e.Addr))
			continue
		}
		if !r.ok {
			l.find("C02", "member-fails-filters", fmt.Sprintf("%s: member %x@%v (data %v) fails the node or data filter", when, e.ID, e.Addr, r.data))
		}
		if fmt.Sprint(e.Data) != fmt.Sprint(r.data) {
			l.find("C02", "member-carries-wrong-data", fmt.Sprintf("%s: member %x@%v carries data %v, it returned %v", when, e.ID, e.Addr, e.Data, r.data))
		}
		if i > 0 && ref.CmpDist(set[i-1].ID, e.ID, l.Net.Target) > 0 {
			l.find("C02", "result-set-not-in-distance-order", fmt.Sprintf("%s: element %d closer than element %d", when, i, i-1))
		}
	}
	for _, r := range l.responders {
		if !r.ok || member[key{r.addr, r.id}] {
			continue
		}
		if len(set) < l.Net.K {
			l.find("C02", "responder-omitted-while-set-not-full", fmt.Sprintf("%s: %x@%v answered and passes the filters, the set has %d < K=%d members, yet it is absent", when, r.id, r.addr, len(set), l.Net.K))
			continue
		}
		for _, e := range set {
			if ref.CmpDist(r.id, e.ID, l.Net.Target) < 0 {
				l.find("C02", "closer-responder-omitted", fmt.Sprintf("%s: %x@%v answered, passes the filters and is strictly closer than member %x@%v, yet it is absent", when, r.id, r.addr, e.ID, e.Addr))
				break
			}
		}
	}
}

// checkTruthfulLocked: on a truthful network run to its stall the result is exactly the K closest.
func (l *Lookup) checkTruthfulLocked() {
	sorted := append([]*SimNode(nil), l.Net.Order...)
	sortNodes(sorted, l.Net.Target)
	want := sorted
	if len(want) > l.Net.K {
		want = want[:l.Net.K]
	}
	set := l.closest()
	bad := len(set) != len(want)
	for i := 0; !bad && i < len(want); i++ {
		if set[i].ID != want[i].AdvID || set[i].Addr.AddrPort != want[i].Addr {
			bad = true
		}
	}
	if bad {
		var g, w []string
		for _, e := range set {
			g = append(g, fmt.Sprintf("%x@%v", e.ID[:4], e.Addr))
		}
		for _, e := range want {
			w = append(w, fmt.Sprintf("%x@%v", e.AdvID[:4], e.Addr))
		}
		l.find("C02", "truthful-network-result-not-k-closest", fmt.Sprintf("result %v, true K closest %v", g, w))
	}
}

// checkStallLocked is the C03 safety oracle, evaluated when the stalled signal was received in a
// state the controller knows to be current.
func (l *Lookup) checkStallLocked(q quiet) {
	if q.blocked != 0 || l.active != 0 {
		l.find("C03", "stalled-with-queries-in-flight", fmt.Sprintf("stalled reported with %d queries in flight", l.active))
	}
	set := l.closest()
	full := len(set) >= l.Net.K
	var far [20]byte
	if len(set) > 0 {
		far = set[len(set)-1].ID
	}
	for _, p := range l.learned {
		if !l.Net.NodeFilter(mkAmi(p.addr, p.id)) {
			continue
		}
		if l.queried[p.addr] > 0 {
			continue
		}
		if full && (p.id == nil || ref.CmpDist(*p.id, far, l.Net.Target) > 0) {
			continue
		}
		idstr := "unknown id"
		if p.id != nil {
			idstr = fmt.Sprintf("%x", *p.id)
		}
		l.find("C03", "stalled-with-unqueried-candidate", fmt.Sprintf("stalled reported but %s@%v passes the filter, was never queried, and the result set has %d/%d members (farthest %x)",
			idstr, p.addr, len(set), l.Net.K, far))
		break
	}
}

// Chooser abstracts PRNG-driven and enumerated schedules. Choose(n) returns an index in [0,n).
type Chooser interface {
	Choose(n int, what string) int
}

type RandChooser struct {
	R        *gen.Rand
	Strategy string // uniform fifo lifo nearest farthest
}

func (c *RandChooser) Choose(n int, what string) int { return c.R.Intn(n) }

type Outcome struct {
	Steps       int
	Completions int
	Stalls      int
	Stopped     bool
	Err         error
	MaxActive   int
	Queries     int
	// lookups in which a query called Stop from inside DoQuery
	StopsFromInside int
}

type Policy struct {
	// probabilities in 1/100 per step
	StopPct    int
	LatePct    int
	TimeoutPct int
	// Keep going after the first stall (late adds, then stop) or stop right away.
	Strategy string
}

// Run drives one lookup under the controller until Stopped.
func (l *Lookup) Run(ch Chooser, r *gen.Rand, pol Policy) (out Outcome) {
	l.Start()
	lateLeft := append([][]types.AddrMaybeId(nil), l.Net.Late...)
	ranToStall := false
	for {
		q, err := l.waitQuiescent()
		if err != nil {
			out.Err = err
			l.abandon()
			return
		}
		out.Steps++
		l.mu.Lock()
		if len(l.findings) > 0 && !q.snap.Stopped {
			// One refuted lookup is enough; a broken operation may never terminate.
			out.MaxActive, out.Queries = l.maxActive, len(l.calls)
			l.mu.Unlock()
			l.abandon()
			return
		}
		if q.snap.Stopped {
			l.checkResultSetLocked("at stopped")
			l.mu.Unlock()
			// The flag is set an instant before the channel closes; wait for the channel.
			select {
			case <-l.Op.Stopped():
			case <-time.After(20 * time.Second):
				l.mu.Lock()
				l.find("C03", "no-progress:stopped-flag-without-signal", "operation is marked stopped but Stopped() does not fire")
				l.mu.Unlock()
			}
			l.mu.Lock()
			out.Stopped = true
			out.MaxActive, out.Queries = l.maxActive, len(l.calls)
			l.mu.Unlock()
			return
		}
		stopCalled := l.stopCalled
		nblocked := len(l.blocked)
		l.mu.Unlock()

		if !stopCalled {
			mustStall := nblocked == 0 && !q.snap.HaveQuery
			if mustStall {
				select {
				case _, ok := <-l.Op.Stalled():
					_ = ok
				case <-time.After(20 * time.Second):
					// Two looks, one second apart, at a state from which the signal must come.
					s2 := l.Op.VerifSnapshot()
					l.mu.Lock()
					if s2 == q.snap {
						l.find("C03", "no-progress:stall-never-reported", fmt.Sprintf("nothing in flight, no candidate qualifies (state %+v), but stalled is not reported; goroutines:\n%s",
							s2, truncate(census.Dump(census.Module(nil)), 4000)))
					}
					l.mu.Unlock()
					out.Err = errWatchdog
					l.abandon()
					return
				}
				out.Stalls++
				l.mu.Lock()
				// The state cannot have changed: nothing is in flight and only this goroutine adds.
				l.Trace = append(l.Trace, "stall")
				l.checkStallLocked(q)
				l.checkResultSetLocked("at stall")
				if l.Net.Truthful && !ranToStall {
					l.checkTruthfulLocked()
				}
				ranToStall = true
				l.mu.Unlock()
			} else {
				select {
				case <-l.Op.Stalled():
					l.mu.Lock()
					l.find("C03", "stalled-offered-when-it-must-not-be", fmt.Sprintf("stalled fired in state %+v with %d queries parked in the harness", q.snap, nblocked))
					l.mu.Unlock()
				default:
				}
			}
		}

		// Enabled actions.
		type action struct {
			kind string
			i    int
		}
		var acts []action
		l.mu.Lock()
		for i := range l.blocked {
			acts = append(acts, action{"complete", i})
		}
		nb := len(l.blocked)
		l.mu.Unlock()
		canLate := !stopCalled && len(lateLeft) > 0
		canStop := !stopCalled
		var act action
		switch {
		case stopCalled:
			if nb == 0 {
				// waitQuiescent only returns here in a stopping state with something in flight.
				out.Err = fmt.Errorf("inconclusive: stopping, nothing parked, not stopped")
				l.abandon()
				return
			}
			act = acts[l.pickComplete(ch, r, pol)]
		case nb == 0:
			// Stalled. Either add late nodes or stop.
			if canLate && ch.Choose(2, "late-or-stop") == 0 {
				act = action{"late", 0}
			} else {
				act = action{"stop", 0}
			}
		default:
			p := r.Intn(100)
			switch {
			case canStop && p < pol.StopPct:
				act = action{"stop", 0}
			case canLate && p < pol.StopPct+pol.LatePct:
				act = action{"late", 0}
			default:
				act = acts[l.pickComplete(ch, r, pol)]
			}
		}
		switch act.kind {
		case "complete":
			l.mu.Lock()
			c := l.blocked[act.i]
			l.blocked = append(l.blocked[:act.i], l.blocked[act.i+1:]...)
			timeout := r.Intn(100) < pol.TimeoutPct
			res := l.answer(c.addr, timeout)
			l.recordAnswerLocked(c.addr, res)
			if l.stopCalled {
				select {
				case <-c.ctx.Done():
				default:
					l.find("C04", "in-flight-query-not-cancelled-after-stop", fmt.Sprintf("query to %v still has a live context after Stop", c.addr))
				}
			}
			l.Trace = append(l.Trace, fmt.Sprintf("done(%v%s)", c.addr, map[bool]string{true: ",timeout", false: ""}[timeout]))
			l.mu.Unlock()
			out.Completions++
			c.release <- res
		case "late":
			b := lateLeft[0]
			lateLeft = lateLeft[1:]
			l.mu.Lock()
			for _, a := range b {
				l.learnLocked(a)
			}
			l.Trace = append(l.Trace, fmt.Sprintf("late(%d)", len(b)))
			l.mu.Unlock()
			l.Op.AddNodes(b)
		case "stop":
			l.mu.Lock()
			l.stopCalled = true
			l.Trace = append(l.Trace, "stop")
			blockedNow := append([]*call(nil), l.blocked...)
			l.mu.Unlock()
			l.Op.Stop()
			// Every query still in flight must have its context cancelled (bounded wait; the
			// cancellation is done by a watcher goroutine per query).
			for _, c := range blockedNow {
				select {
				case <-c.ctx.Done():
				case <-time.After(10 * time.Second):
					l.mu.Lock()
					l.find("C04", "in-flight-query-not-cancelled-after-stop", fmt.Sprintf("query to %v: context still live 10s after Stop", c.addr))
					l.mu.Unlock()
				}
			}
		}
	}
}

func (l *Lookup) pickComplete(ch Chooser, r *gen.Rand, pol Policy) int {
	l.mu.Lock()
	defer l.mu.Unlock()
	n := len(l.blocked)
	switch pol.Strategy {
	case "fifo":
		return 0
	case "lifo":
		return n - 1
	case "nearest", "farthest":
		idx := make([]int, n)
		for i := range idx {
			idx[i] = i
		}
		d := func(i int) [20]byte {
			if sn := l.Net.Nodes[l.blocked[i].addr]; sn != nil {
				return sn.AdvID
			}
			var m [20]byte
			for k := range m {
				m[k] = ^l.Net.Target[k]
			}
			return m
		}
		sort.SliceStable(idx, func(a, b int) bool { return ref.CmpDist(d(idx[a]), d(idx[b]), l.Net.Target) < 0 })
		if pol.Strategy == "nearest" {
			return idx[0]
		}
		return idx[n-1]
	}
	if pol.Strategy == "enum" {
		// Canonical order so that the same choice index means the same query in every run.
		sort.Slice(l.blocked, func(a, b int) bool { return l.blocked[a].addr.Compare(l.blocked[b].addr) < 0 })
	}
	return ch.Choose(n, "complete")
}

// abandon releases everything so that goroutines of a failed lookup do not linger.
func (l *Lookup) abandon() {
	l.mu.Lock()
	l.stopCalled = true
	bl := l.blocked
	l.blocked = nil
	l.mu.Unlock()
	l.Op.Stop()
	for _, c := range bl {
		c.release <- traversal.QueryResult{}
	}
}

// Schedule hash for distinct counting.
func (l *Lookup) ScheduleHash() uint64 {
	return gen.Hash64(strings.Join(l.Trace, " "), l.Net.K, l.Net.Alpha, len(l.Net.Order), l.Net.Class)
}
