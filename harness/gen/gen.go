// Package gen holds the seeded PRNG and structured generators shared by all monitors.
package gen

import (
	"encoding/binary"
	"hash/fnv"
	"net"
)

// splitmix64. Deterministic per (seed, stream labels).
type Rand struct{ s uint64 }

func New(seed uint64, labels ...string) *Rand {
	h := fnv.New64a()
	var b [8]byte
	binary.BigEndian.PutUint64(b[:], seed)
	h.Write(b[:])
	for _, l := range labels {
		h.Write([]byte{0})
		h.Write([]byte(l))
	}
	r := &Rand{s: h.Sum64()}
	r.U64()
	return r
}

func (r *Rand) U64() uint64 {
	r.s += 0x9e3779b97f4a7c15
	z := r.s
	z = (z ^ (z >> 30)) * 0xbf58476d1ce4e5b9
	z = (z ^ (z >> 27)) * 0x94d049bb133111eb
	return z ^ (z >> 31)
}

// State lets a replay file record where the stream was.
func (r *Rand) State() uint64     { return r.s }
func (r *Rand) SetState(s uint64) { r.s = s }

// Fork derives an independent stream.
func (r *Rand) Fork(label string) *Rand {
	return New(r.U64(), label)
}

func (r *Rand) Intn(n int) int {
	if n <= 0 {
		return 0
	}
	return int(r.U64() % uint64(n))
}

// Range returns a value in [lo, hi].
func (r *Rand) Range(lo, hi int) int { return lo + r.Intn(hi-lo+1) }

func (r *Rand) Bool() bool { return r.U64()&1 == 1 }

// Chance is true with probability num/den.
func (r *Rand) Chance(num, den int) bool { return r.Intn(den) < num }

func (r *Rand) Bytes(n int) []byte {
	b := make([]byte, n)
	for i := 0; i < n; i += 8 {
		v := r.U64()
		for j := 0; j < 8 && i+j < n; j++ {
			b[i+j] = byte(v >> (8 * j))
		}
	}
	return b
}

func (r *Rand) ID() (id [20]byte) {
	copy(id[:], r.Bytes(20))
	return
}

func Pick[T any](r *Rand, xs []T) T { return xs[r.Intn(len(xs))] }

func Shuffle[T any](r *Rand, xs []T) {
	for i := len(xs) - 1; i > 0; i-- {
		j := r.Intn(i + 1)
		xs[i], xs[j] = xs[j], xs[i]
	}
}

// IDWithPrefix returns an ID sharing exactly n leading bits with root (n in 0..159): bits 0..n-1
// equal, bit n flipped, the rest random. n == 160 returns root itself.
func (r *Rand) IDWithPrefix(root [20]byte, n int) [20]byte {
	if n >= 160 {
		return root
	}
	id := r.ID()
	for i := 0; i < n; i++ {
		SetBit(&id, i, GetBit(root, i))
	}
	SetBit(&id, n, !GetBit(root, n))
	return id
}

func GetBit(id [20]byte, i int) bool { return id[i/8]>>(7-uint(i%8))&1 == 1 }

func SetBit(id *[20]byte, i int, v bool) {
	m := byte(1) << (7 - uint(i%8))
	if v {
		id[i/8] |= m
	} else {
		id[i/8] &^= m
	}
}

// Public (non-exempt, non-zero-net) IPv4 address as a 4-byte slice.
func (r *Rand) PublicIPv4() net.IP {
	for {
		ip := net.IP(r.Bytes(4))
		if IsPlainPublicV4(ip) {
			return ip
		}
	}
}

func IsPlainPublicV4(ip net.IP) bool {
	ip = ip.To4()
	if ip == nil {
		return false
	}
	switch {
	case ip[0] == 0, ip[0] == 10, ip[0] == 127, ip[0] >= 224:
		return false
	case ip[0] == 172 && ip[1]&0xf0 == 16:
		return false
	case ip[0] == 192 && ip[1] == 168:
		return false
	case ip[0] == 169 && ip[1] == 254:
		return false
	}
	return true
}

// Global unicast IPv6 address (2000::/3), 16 bytes.
func (r *Rand) PublicIPv6() net.IP {
	ip := net.IP(r.Bytes(16))
	ip[0] = 0x20 | ip[0]&0x1f
	return ip
}

func V4Mapped(ip4 net.IP) net.IP {
	ip4 = ip4.To4()
	out := make(net.IP, 16)
	out[10], out[11] = 0xff, 0xff
	copy(out[12:], ip4)
	return out
}

func (r *Rand) Port() int { return r.Range(1, 65535) }

// UDPAddr in one of three forms: 4-byte v4, 16-byte v6, or v4-mapped 16-byte.
func (r *Rand) UDPAddr(form int) *net.UDPAddr {
	switch form % 3 {
	case 0:
		return &net.UDPAddr{IP: r.PublicIPv4(), Port: r.Port()}
	case 1:
		return &net.UDPAddr{IP: r.PublicIPv6(), Port: r.Port()}
	default:
		return &net.UDPAddr{IP: V4Mapped(r.PublicIPv4()), Port: r.Port()}
	}
}

// AddrAlloc hands out unique public addresses so that "one fresh source per message" is cheap.
type AddrAlloc struct {
	n uint32
}

func (a *AddrAlloc) next() uint32 {
	a.n++
	return a.n
}

// Fresh 4-byte IPv4 address, never repeated by this allocator. Range 20.0.0.0 - 99.x.
func (a *AddrAlloc) V4() *net.UDPAddr {
	n := a.next()
	ip := net.IP{byte(20 + (n>>24)%80), byte(n >> 16), byte(n >> 8), byte(n)}
	return &net.UDPAddr{IP: ip, Port: 1024 + int(n%60000)}
}

func (a *AddrAlloc) V6() *net.UDPAddr {
	n := a.next()
	ip := make(net.IP, 16)
	ip[0], ip[1] = 0x20, 0x01
	ip[2], ip[3] = 0x0d, 0xb9
	binary.BigEndian.PutUint32(ip[12:], n)
	ip[8] = byte(n * 7)
	return &net.UDPAddr{IP: ip, Port: 1024 + int(n%60000)}
}

func (a *AddrAlloc) Mapped() *net.UDPAddr {
	u := a.V4()
	u.IP = V4Mapped(u.IP)
	return u
}

// Hash64 for distinct-case counting.
func Hash64(parts ...any) uint64 {
	h := fnv.New64a()
	for _, p := range parts {
		switch v := p.(type) {
		case string:
			h.Write([]byte(v))
		case []byte:
			h.Write(v)
		case int:
			var b [8]byte
			binary.BigEndian.PutUint64(b[:], uint64(v))
			h.Write(b[:])
		case int64:
			var b [8]byte
			binary.BigEndian.PutUint64(b[:], uint64(v))
			h.Write(b[:])
		case uint64:
			var b [8]byte
			binary.BigEndian.PutUint64(b[:], v)
			h.Write(b[:])
		case bool:
			if v {
				h.Write([]byte{1})
			} else {
				h.Write([]byte{0})
			}
		case [20]byte:
			h.Write(v[:])
		default:
			panic("gen.Hash64: unsupported type")
		}
		h.Write([]byte{0xff})
	}
	return h.Sum64()
}
