package main

import (
	"fmt"
	"net"
	"sync"
	"sync/atomic"
	"time"

	"github.com/anacrolix/dht/v2"
	"github.com/anacrolix/dht/v2/bep44"
	"github.com/anacrolix/dht/v2/krpc"
	peer_store "github.com/anacrolix/dht/v2/peer-store"
	"github.com/anacrolix/torrent/metainfo"

	"verifharness/benc"
	"verifharness/evid"
	"verifharness/gen"
	"verifharness/ref"
	"verifharness/srv"
)

func init() { register("C10", c10) }

type recPeerStore struct {
	mu    sync.Mutex
	added map[[20]byte][]krpc.NodeAddr
}

func (p *recPeerStore) AddPeer(ih peer_store.InfoHash, na krpc.NodeAddr) {
	p.mu.Lock()
	defer p.mu.Unlock()
	if p.added == nil {
		p.added = map[[20]byte][]krpc.NodeAddr{}
	}
	p.added[ih] = append(p.added[ih], na)
}
func (p *recPeerStore) GetPeers(peer_store.InfoHash) []krpc.NodeAddr { return nil }
func (p *recPeerStore) got(ih [20]byte) int {
	p.mu.Lock()
	defer p.mu.Unlock()
	return len(p.added[ih])
}

type recStore struct {
	mu    sync.Mutex
	inner *bep44.Memory
	puts  map[bep44.Target]int
}

func (s *recStore) Put(i *bep44.Item) error {
	s.mu.Lock()
	if s.puts == nil {
		s.puts = map[bep44.Target]int{}
	}
	s.puts[i.Target()]++
	s.mu.Unlock()
	return s.inner.Put(i)
}
func (s *recStore) Get(t bep44.Target) (*bep44.Item, error) { return s.inner.Get(t) }
func (s *recStore) Del(t bep44.Target) error               { return s.inner.Del(t) }
func (s *recStore) got(t bep44.Target) int {
	s.mu.Lock()
	defer s.mu.Unlock()
	return s.puts[t]
}

type recAnnounce struct {
	mu  sync.Mutex
	got map[[20]byte]int
}

func (a *recAnnounce) cb(ih metainfo.Hash, ip net.IP, port int, portOk bool) {
	a.mu.Lock()
	defer a.mu.Unlock()
	if a.got == nil {
		a.got = map[[20]byte]int{}
	}
	a.got[ih]++
}
func (a *recAnnounce) n(ih [20]byte) int {
	a.mu.Lock()
	defer a.mu.Unlock()
	return a.got[ih]
}

// C10 — writes need a fresh token issued to the same IP. Virtual token clock; no wall clock in the
// oracle.
func c10(c *evid.Ctx) {
	r := c.R.Fork("c10")
	ps := &recPeerStore{}
	st := &recStore{inner: bep44.NewMemory()}
	an := &recAnnounce{}
	n, err := srv.New(dht.ServerConfig{NoSecurity: true, PeerStore: ps, Store: st, OnAnnouncePeer: an.cb})
	if err != nil {
		c.Inconclusive(err.Error())
		return
	}
	defer n.Close()
	other, err := srv.New(dht.ServerConfig{NoSecurity: true, PeerStore: &recPeerStore{}})
	if err != nil {
		c.Inconclusive(err.Error())
		return
	}
	defer other.Close()
	var now atomic.Int64
	const interval = 5 * time.Minute
	base := int64(1_700_000_000) * int64(time.Second) / int64(interval) * int64(interval)
	n.S.VerifSetTokenClock(func() time.Time { return time.Unix(0, now.Load()) })
	other.S.VerifSetTokenClock(func() time.Time { return time.Unix(0, now.Load()) })

	offsets := []time.Duration{0, 1, time.Second, 150 * time.Second, interval - 1}
	delays := []time.Duration{0, time.Second, 4*time.Minute + 59*time.Second, 5 * time.Minute, 9*time.Minute + 59*time.Second, 10 * time.Minute,
		10*time.Minute + 1, 12*time.Minute + 30*time.Second, 14*time.Minute + 59*time.Second, 15 * time.Minute, 15*time.Minute + 1, 20 * time.Minute, time.Hour}
	extraOffsets := c.Scale(8, 1600) // PRNG-chosen offsets and delays on top of the grid
	type combo struct{ o, d time.Duration }
	var combos []combo
	for _, o := range offsets {
		for _, d := range delays {
			combos = append(combos, combo{o, d})
		}
	}
	grid := len(combos)
	for i := 0; i < extraOffsets*4; i++ {
		combos = append(combos, combo{time.Duration(r.U64() % uint64(interval)), time.Duration(r.U64() % uint64(25*time.Minute))})
	}
	var alloc gen.AddrAlloc
	for i := 0; i < c.Batch*1000; i++ {
		alloc.V4() // disjoint address ranges per batch are not needed for soundness, only tidier WALs
	}
	for ci, cb := range combos {
		// the grid is shared out over the batches; the PRNG-drawn combinations are each batch's own
		if ci < grid && ci%c.NBatch != c.Batch || c.NumViolations() > 20 {
			continue
		}
		for fam := 0; fam < 2; fam++ { // IPv4 and IPv6 source
			for _, via := range []string{"get_peers", "get"} {
				var A, B *net.UDPAddr
				if fam == 0 {
					A, B = alloc.V4(), alloc.V4()
				} else {
					A, B = alloc.V6(), alloc.V6()
				}
				epoch := base + int64(r.Intn(1000))*int64(interval)
				now.Store(epoch + int64(cb.o))
				prior := time.Duration(-1)
				if r.Bool() {
					// An earlier fetch from the same IP: every token issued must be honoured for 10
					// minutes from *its* issue, whatever was issued to that IP before.
					prior = time.Duration(r.U64() % uint64(6*time.Minute))
				}
				fetch := func(node *srv.Node, from *net.UDPAddr) string {
					var q []byte
					if via == "get_peers" {
						q = srv.Query("get_peers", "t1", benc.Dict{"id": r.ID(), "info_hash": r.ID()})
					} else {
						q = srv.Query("get", "t1", benc.Dict{"id": r.ID(), "target": r.ID()})
					}
					rs, err := node.Ask(q, from)
					if err != nil || len(rs) != 1 {
						return ""
					}
					t, _ := benc.Str(rs[0].R(), "token")
					return t
				}
				if prior >= 0 {
					now.Store(epoch + int64(cb.o) - int64(prior))
					fetch(n, &net.UDPAddr{IP: A.IP, Port: 1 + r.Intn(65535)})
					c.Count("cases with an earlier token fetch from the same IP", 1)
					now.Store(epoch + int64(cb.o))
				}
				tokA := fetch(n, A)
				tokB := fetch(n, B)
				tokOther := fetch(other, A)
				if tokA == "" || tokB == "" || tokOther == "" {
					c.Violation("no-token-issued", fmt.Sprintf("%s from %v/%v returned no token", via, A, B), nil)
					continue
				}
				now.Store(epoch + int64(cb.o) + int64(cb.d))

				type variant struct {
					name  string
					from  *net.UDPAddr
					token *string
					valid bool
				}
				str := func(s string) *string { return &s }
				// every variant gets its own source port (replies are attributed by source address)
				nextPort := 10000 + r.Intn(20000)
				port := func() int {
					nextPort++
					if nextPort == A.Port {
						nextPort++
					}
					return nextPort
				}
				vs := []variant{
					{"exact, same port", &net.UDPAddr{IP: A.IP, Port: A.Port}, str(tokA), true},
					{"exact, other port", &net.UDPAddr{IP: A.IP, Port: port()}, str(tokA), true},
					{"token of B used by A", &net.UDPAddr{IP: A.IP, Port: port()}, str(tokB), false},
					{"token of A used by B", &net.UDPAddr{IP: B.IP, Port: port()}, str(tokA), false},
					{"token another server issued to A", &net.UDPAddr{IP: A.IP, Port: port()}, str(tokOther), false},
					{"empty", &net.UDPAddr{IP: A.IP, Port: port()}, str(""), false},
					{"absent", &net.UDPAddr{IP: A.IP, Port: port()}, nil, false},
					{"extended by one byte", &net.UDPAddr{IP: A.IP, Port: port()}, str(tokA + string(r.Bytes(1))), false},
					{"prefixed by one byte", &net.UDPAddr{IP: A.IP, Port: port()}, str(string(r.Bytes(1)) + tokA), false},
					{"truncated", &net.UDPAddr{IP: A.IP, Port: port()}, str(tokA[:r.Intn(len(tokA))]), false},
					{"doubled", &net.UDPAddr{IP: A.IP, Port: port()}, str(tokA + tokA), false},
				}
				if fam == 0 {
					vs = append(vs, variant{"exact, v4-mapped form of A", &net.UDPAddr{IP: gen.V4Mapped(A.IP), Port: port()}, str(tokA), true})
				}
				{
					// a neighbour: same /24 (IPv4) or same /64 (IPv6), another host
					nb := append(net.IP(nil), A.IP...)
					nb[len(nb)-1] ^= byte(1 + r.Intn(255))
					vs = append(vs, variant{"token of A used by a neighbouring address", &net.UDPAddr{IP: nb, Port: port()}, str(tokA), false})
				}
				{
					// the other family's addresses that embed A's bytes: an IPv4 address a.b.c.d reappears
					// in abcd::, ::a.b.c.d, 64:ff9b::a.b.c.d and 2002:abcd::; an IPv6 address shares its
					// first or last four bytes with two IPv4 addresses. All of them are other hosts.
					var rel []net.IP
					if a4 := A.IP.To4(); a4 != nil {
						left := make(net.IP, 16)
						copy(left, a4)
						compat := make(net.IP, 16)
						copy(compat[12:], a4)
						nat64 := net.ParseIP("64:ff9b::")
						copy(nat64[12:], a4)
						sixto4 := make(net.IP, 16)
						sixto4[0], sixto4[1] = 0x20, 0x02
						copy(sixto4[2:], a4)
						rel = []net.IP{left, compat, nat64, sixto4}
					} else {
						rel = []net.IP{append(net.IP(nil), A.IP[:4]...), append(net.IP(nil), A.IP[12:]...)}
					}
					x := rel[r.Intn(len(rel))]
					vs = append(vs, variant{"token of A used by an address of the other family that embeds A's bytes", &net.UDPAddr{IP: x, Port: port()}, str(tokA), false})
				}
				flips := 6
				if ci%5 == 0 || !c.Quick() {
					flips = 8 * len(tokA)
				}
				for f := 0; f < flips; f++ {
					bit := f
					if flips < 8*len(tokA) {
						bit = r.Intn(8 * len(tokA))
					}
					b := []byte(tokA)
					b[bit/8] ^= 1 << uint(bit%8)
					vs = append(vs, variant{"one bit flipped", &net.UDPAddr{IP: A.IP, Port: port()}, str(string(b)), false})
				}
				for _, method := range []string{"announce_peer", "put"} {
					var msgs [][]byte
					var from []*net.UDPAddr
					keys := make([][20]byte, len(vs))
					for i, v := range vs {
						a := benc.Dict{"id": r.ID()}
						if v.token != nil {
							a["token"] = *v.token
						}
						if method == "announce_peer" {
							keys[i] = r.ID()
							a["info_hash"] = keys[i]
							a["port"] = int64(1 + r.Intn(65535))
						} else {
							val := string(r.Bytes(24))
							keys[i] = ref.SHA1(benc.Encode(val))
							a["v"] = val
							a["seq"] = int64(0)
							if !v.valid && r.Intn(3) == 0 {
								delete(a, "seq") // a malformed write must be just as silent when its token is bad
							}
						}
						m := srv.Query(method, "w", a)
						c.WAL("o=%v d=%v via=%s %s [%s] from %v", cb.o, cb.d, via, method, v.name, v.from)
						msgs = append(msgs, m)
						from = append(from, v.from)
					}
					by, all, err := n.Exchange(nil, msgs, from)
					if err != nil {
						c.Inconclusive(err.Error())
						return
					}
					srcs := map[string]bool{}
					for _, f := range from {
						srcs[f.String()] = true
					}
					for _, rp := range all {
						if !srcs[rp.To.String()] {
							c.Violation("datagram-to-unrelated-address", fmt.Sprintf("%q to %v", rp.Raw, rp.To), nil)
						}
					}
					for i, v := range vs {
						c.Eval(1)
						replies := by[from[i].String()]
						effect := 0
						if method == "announce_peer" {
							effect = ps.got(keys[i])
							if cbn := an.n(keys[i]); (cbn > 0) != (effect > 0) {
								c.Violation("callback-and-store-disagree", fmt.Sprintf("%s [%s]: AddPeer calls %d, OnAnnouncePeer calls %d", method, v.name, effect, cbn), nil)
							}
						} else {
							effect = st.got(keys[i])
						}
						gotReply := len(replies) > 0
						window := "must-accept"
						switch {
						case cb.d > 15*time.Minute:
							window = "must-reject"
						case cb.d > 10*time.Minute:
							window = "either"
						}
						c.Distinct(gen.Hash64(method, via, v.name, window, int64(cb.o), int64(cb.d), fam))
						c.Count("judged: "+window+" / "+map[bool]string{true: "valid token", false: "invalid token"}[v.valid], 1)
						desc := fmt.Sprintf("(earlier fetch from the same IP %v before issue; -1ns = none) issue offset %v into the rotation interval, used %v later, token via %s, %s from %v [%s]: replies=%d effects=%d",
							prior, cb.o, cb.d, via, method, from[i], v.name, len(replies), effect)
						rp := map[string]any{"issue_offset": cb.o.String(), "use_delay": cb.d.String(), "via": via, "method": method, "variant": v.name, "source": from[i].String()}
						if c.WantSample() && ci%11 == 0 && i < 3 {
							c.Sample(rp)
						}
						sig := method + ":" + v.name
						switch {
						case !v.valid || window == "must-reject":
							if gotReply {
								c.Violation("reply-to-write-with-invalid-token:"+sig, desc+fmt.Sprintf(" first=%q", replies[0].Raw), rp)
							}
							if effect > 0 {
								c.Violation("write-with-invalid-token-took-effect:"+sig, desc, rp)
							}
						case window == "must-accept":
							if effect != 1 {
								c.Violation("valid-token-write-had-no-effect:"+sig, desc, rp)
							}
							if len(replies) != 1 || replies[0].Y() != "r" {
								c.Violation("valid-token-write-not-answered:"+sig, desc, rp)
							}
						default:
							if gotReply != (effect > 0) {
								c.Violation("reply-and-effect-disagree:"+sig, desc, rp)
							}
						}
					}
				}
			}
		}
	}
	c.Floor("judged: must-accept / valid token", 1)
	c.Floor("judged: must-reject / valid token", 1)
}
