package main

import (
	"crypto/ed25519"
	"fmt"
	"net"
	"strings"
	"time"

	"github.com/anacrolix/dht/v2"
	"github.com/anacrolix/dht/v2/krpc"
	peer_store "github.com/anacrolix/dht/v2/peer-store"

	"verifharness/benc"
	"verifharness/evid"
	"verifharness/gen"
	"verifharness/ref"
	"verifharness/simnet"
	"verifharness/srv"
)

func init() { register("C08", c08) }

type c08probe struct {
	from   *net.UDPAddr
	msg    []byte
	t      string
	expect string // "r", "e203", "e204", "e205", "e206", "e207", "none"
	desc   string
}

func edKey(r *gen.Rand) (ed25519.PublicKey, ed25519.PrivateKey) {
	seed := r.Bytes(32)
	priv := ed25519.NewKeyFromSeed(seed)
	return priv.Public().(ed25519.PublicKey), priv
}

func c08t(r *gen.Rand) string {
	switch r.Intn(8) {
	case 0:
		return ""
	case 1:
		return string(r.Bytes(300))
	case 2:
		return "\x00"
	case 3:
		return "aa" // deliberately repeated across sources
	case 4:
		return string(r.Bytes(1 + r.Intn(40)))
	}
	return string(r.Bytes(1 + r.Intn(4)))
}

// C08 — replies go to the asker, echo t, right KRPC form.
func c08(c *evid.Ctx) {
	r := c.R.Fork("c08")
	type cfg struct {
		name      string
		passive   bool
		veto      bool
		peerStore bool
	}
	cfgs := []cfg{{"normal+peerstore", false, false, true}, {"normal", false, false, false}, {"passive", true, false, true}, {"veto", false, true, true}}
	total := c.Scale(40000, 1200000)
	var alloc gen.AddrAlloc
	for ci, cf := range cfgs {
		sc := dht.ServerConfig{NoSecurity: true, Passive: cf.passive}
		if cf.peerStore {
			sc.PeerStore = &peer_store.InMemory{}
		}
		if cf.veto {
			sc.OnQuery = func(*krpc.Msg, net.Addr) bool { return false }
		}
		n, err := srv.New(sc)
		if err != nil {
			c.Inconclusive("NewServer: " + err.Error())
			return
		}
		own := n.S.ID()
		// For one asker in sixteen the socket reports a short write: that asker must still see
		// exactly one datagram (the truncated one), never a second attempt.
		n.Conn.SetHook(func(d simnet.Datagram) error {
			if d.To.Port%16 == 3 {
				return simnet.ErrShortWrite
			}
			return nil
		})
		budget := total / len(cfgs)
		if cf.passive || cf.veto {
			budget = total / 8
		}
		for done := 0; done < budget && c.NumViolations() < 20; {
			burst := gen.Pick(r, []int{1, 2, 8, 64})
			// Phase A: token fetches for the sources that will need one.
			type pending struct {
				ip    net.IP
				form  string
				token string
				kind  string
			}
			var pend []pending
			var msgsA [][]byte
			var fromA []*net.UDPAddr
			newAddr := func() (*net.UDPAddr, string) {
				switch r.Intn(3) {
				case 0:
					return alloc.V4(), "v4"
				case 1:
					return alloc.V6(), "v6"
				}
				return alloc.Mapped(), "mapped"
			}
			for i := 0; i < burst; i++ {
				a, form := newAddr()
				pend = append(pend, pending{ip: a.IP, form: form})
				msgsA = append(msgsA, srv.Query("get", "tk", benc.Dict{"id": r.ID(), "target": r.ID()}))
				fromA = append(fromA, a)
			}
			byA, _, err := n.Exchange(nil, msgsA, fromA)
			if err != nil {
				c.Inconclusive(err.Error())
				break
			}
			for i := range pend {
				if rs := byA[fromA[i].String()]; len(rs) == 1 {
					pend[i].token, _ = benc.Str(rs[0].R(), "token")
				}
			}
			// Phase B: the judged messages, each from a fresh port (fresh IP for non-token ones).
			var probes []c08probe
			for i := 0; i < burst; i++ {
				p := c08probe{t: c08t(r)}
				tokIP := pend[i].ip
				p.from = &net.UDPAddr{IP: tokIP, Port: 1 + r.Intn(65535)}
				tok := pend[i].token
				id := r.ID()
				withArgs := func(d benc.Dict) benc.Dict {
					d["id"] = id
					return d
				}
				reply := func(exp string) string {
					if cf.passive || cf.veto {
						return "none"
					}
					return exp
				}
				kind := r.Intn(23)
				switch kind {
				case 0:
					p.desc, p.msg, p.expect = "ping", srv.Query("ping", p.t, withArgs(benc.Dict{})), reply("r")
				case 1:
					p.desc, p.msg, p.expect = "ping without a", srv.Query("ping", p.t, nil), reply("r")
				case 2:
					p.desc, p.msg, p.expect = "find_node", srv.Query("find_node", p.t, withArgs(benc.Dict{"target": r.ID()})), reply("r")
				case 3:
					p.desc, p.msg, p.expect = "find_node id only", srv.Query("find_node", p.t, withArgs(benc.Dict{})), reply("r")
				case 4:
					p.desc, p.msg, p.expect = "find_node without a", srv.Query("find_node", p.t, nil), reply("e203")
				case 5:
					p.desc, p.msg, p.expect = "get_peers", srv.Query("get_peers", p.t, withArgs(benc.Dict{"info_hash": r.ID(), "want": benc.List{"n4", "n6"}})), reply("r")
				case 6:
					p.desc, p.msg, p.expect = "get_peers without a", srv.Query("get_peers", p.t, nil), reply("e203")
				case 7:
					p.desc, p.msg, p.expect = "get", srv.Query("get", p.t, withArgs(benc.Dict{"target": r.ID()})), reply("r")
				case 8:
					p.desc, p.msg, p.expect = "get without a", srv.Query("get", p.t, nil), reply("e203")
				case 9:
					p.desc, p.msg, p.expect = "announce_peer valid token", srv.Query("announce_peer", p.t, withArgs(benc.Dict{"info_hash": r.ID(), "port": int64(r.Port()), "token": tok})), reply("r")
				case 10:
					p.desc, p.msg, p.expect = "announce_peer implied_port valid token", srv.Query("announce_peer", p.t, withArgs(benc.Dict{"info_hash": r.ID(), "implied_port": int64(1), "token": tok})), reply("r")
				case 11:
					bad := []byte(tok)
					if len(bad) > 0 {
						bad[r.Intn(len(bad))] ^= 1 << uint(r.Intn(8))
					}
					p.desc, p.msg, p.expect = "announce_peer bad token", srv.Query("announce_peer", p.t, withArgs(benc.Dict{"info_hash": r.ID(), "port": int64(1), "token": string(bad)})), "none"
				case 12:
					p.desc, p.msg, p.expect = "announce_peer without a", srv.Query("announce_peer", p.t, nil), reply("e203")
				case 13:
					p.desc, p.msg, p.expect = "put immutable valid", srv.Query("put", p.t, withArgs(benc.Dict{"v": string(r.Bytes(12 + r.Intn(200))), "seq": int64(r.Intn(5)), "token": tok})), reply("r")
				case 14:
					p.desc, p.msg, p.expect = "put without seq", srv.Query("put", p.t, withArgs(benc.Dict{"v": "x", "token": tok})), reply("e203")
				case 15:
					p.desc, p.msg, p.expect = "put value too big", srv.Query("put", p.t, withArgs(benc.Dict{"v": string(r.Bytes(1001)), "seq": int64(1), "token": tok})), reply("e205")
				case 16, 17, 18:
					pub, priv := edKey(r)
					salt := r.Bytes(gen.Pick(r, []int{0, 1, 64}))
					v := string(r.Bytes(r.Intn(100)))
					seq := int64(r.Intn(1000))
					sig := ed25519.Sign(priv, ref.Bep44SignBuf(salt, seq, benc.Encode(v)))
					a := withArgs(benc.Dict{"v": v, "seq": seq, "token": tok, "k": string(pub), "sig": string(sig)})
					if len(salt) > 0 {
						a["salt"] = string(salt)
					}
					switch kind {
					case 16:
						p.desc, p.expect = "put mutable valid", reply("r")
					case 17:
						sig[r.Intn(64)] ^= 0x10
						a["sig"] = string(sig)
						p.desc, p.expect = "put mutable bad signature", reply("e206")
					case 18:
						a["salt"] = string(r.Bytes(65))
						p.desc, p.expect = "put mutable salt too big", reply("e207")
					}
					p.msg = srv.Query("put", p.t, a)
				case 19:
					p.desc, p.msg, p.expect = "put bad token", srv.Query("put", p.t, withArgs(benc.Dict{"v": "x", "seq": int64(1), "token": tok + "x"})), "none"
				case 20:
					m := gen.Pick(r, []string{"vote", "sample_infohashes", "", "PING", "get_peer"})
					var a benc.Dict
					if r.Bool() {
						a = withArgs(benc.Dict{"target": r.ID()})
					}
					p.desc, p.msg, p.expect = "unknown method "+m, srv.Query(m, p.t, a), reply("e204")
				case 22:
					p.desc, p.msg, p.expect = "announce_peer valid token, neither port nor implied_port", srv.Query("announce_peer", p.t, withArgs(benc.Dict{"info_hash": r.ID(), "token": tok})), reply("r")
				case 21:
					// Non-queries: nothing may be sent in reaction.
					switch r.Intn(5) {
					case 0:
						p.desc, p.msg = "response", srv.Response(p.t, benc.Dict{"id": id})
					case 1:
						p.desc, p.msg = "error", srv.ErrorMsg(p.t, 201, "boo")
					case 2:
						p.desc, p.msg = "unknown y", benc.Encode(benc.Dict{"y": "x", "t": p.t, "q": "ping", "a": benc.Dict{"id": id}})
					case 3:
						p.desc, p.msg = "absent y", benc.Encode(benc.Dict{"t": p.t, "q": "ping", "a": benc.Dict{"id": id}})
					case 4:
						p.desc, p.msg = "response carrying q", benc.Encode(benc.Dict{"y": "r", "t": p.t, "q": "ping", "r": benc.Dict{"id": id}, "a": benc.Dict{"id": id}})
					}
					p.expect = "none"
				}
				if tok == "" && strings.Contains(p.desc, "token") && p.expect != "none" {
					// No token could be obtained (passive/veto servers): the message is just a bad-token one.
					p.expect = "none"
				}
				if r.Intn(6) == 0 {
					// read-only flag must not change how a query is answered
					if d, err := benc.DecodeDict(p.msg); err == nil {
						d["ro"] = int64(1)
						p.msg = benc.Encode(d)
						p.desc += " ro=1"
					}
				}
				p.desc += " from " + pend[i].form
				probes = append(probes, p)
			}
			var msgs [][]byte
			var from []*net.UDPAddr
			srcs := map[string]bool{}
			for _, p := range probes {
				c.WAL("cfg=%s %s: %q from %v", cf.name, p.desc, p.msg, p.from)
				msgs = append(msgs, p.msg)
				from = append(from, p.from)
				srcs[p.from.String()] = true
			}
			// Half of the bursts arrive all at once, the others trickle in with gaps of the order of
			// the time it takes to handle and answer one query.
			var gap func() time.Duration
			if r.Bool() {
				gr := r.Fork("gap")
				gap = func() time.Duration { return time.Duration(gr.Intn(60)) * time.Microsecond }
			}
			by, all, err := n.ExchangePaced(nil, msgs, from, gap)
			if err != nil {
				c.Inconclusive(err.Error())
				break
			}
			for _, rp := range all {
				if !srcs[rp.To.String()] {
					c.Violation("datagram-to-address-that-asked-nothing", fmt.Sprintf("cfg=%s: %q sent to %v", cf.name, rp.Raw, rp.To), nil)
				}
			}
			for _, p := range probes {
				done++
				c.Eval(1)
				c.Count("messages judged ("+cf.name+")", 1)
				c.Distinct(gen.Hash64(ci, strings.SplitN(p.desc, " from ", 2)[0], strings.SplitN(p.desc, " from ", 2)[1], len(p.t) == 0, len(p.t) > 100, burst))
				got := by[p.from.String()]
				sigp := cf.name + ":" + strings.SplitN(p.desc, " from ", 2)[0]
				rp := map[string]any{"config": cf.name, "message": p.desc, "bytes": fmt.Sprintf("%q", p.msg), "source": p.from.String(), "expected": p.expect}
				if c.WantSample() && done%97 == 0 {
					c.Sample(rp)
				}
				if p.expect == "none" {
					c.Count("expected silence, checked", 1)
					if len(got) != 0 {
						c.Violation("sent-something-where-nothing-is-allowed:"+sigp, fmt.Sprintf("%s from %v got %d datagram(s): %q", p.desc, p.from, len(got), got[0].Raw), rp)
					}
					continue
				}
				if len(got) != 1 {
					c.Violation(fmt.Sprintf("reply-count-%d-instead-of-1:%s", len(got), sigp), fmt.Sprintf("%s (%q) from %v got %d datagrams", p.desc, p.msg, p.from, len(got)), rp)
					continue
				}
				g := got[0]
				if g.Err != nil {
					c.Violation("reply-not-bencode:"+sigp, fmt.Sprintf("%q", g.Raw), rp)
					continue
				}
				if tt, ok := benc.Str(g.Dict, "t"); !ok || tt != p.t {
					c.Violation("transaction-id-not-echoed:"+sigp, fmt.Sprintf("%s sent t=%q, reply has t=%q (%q)", p.desc, p.t, tt, g.Raw), rp)
				}
				switch {
				case p.expect == "r":
					c.Count("responses checked", 1)
					if g.Y() != "r" {
						c.Violation("expected-response-got-"+g.Y()+":"+sigp, fmt.Sprintf("%s: %q", p.desc, g.Raw), rp)
						continue
					}
					if id, _ := benc.Str(g.R(), "id"); id != string(own[:]) {
						c.Violation("response-without-own-id:"+sigp, fmt.Sprintf("%s: r.id=%x own=%x", p.desc, id, own), rp)
					}
					ip, _ := benc.Str(g.Dict, "ip")
					okip := false
					if len(ip) == 6 || len(ip) == 18 {
						aip := net.IP(ip[:len(ip)-2])
						port := int(ip[len(ip)-2])<<8 | int(ip[len(ip)-1])
						okip = aip.Equal(p.from.IP) && port == p.from.Port
					}
					if !okip {
						c.Violation("response-ip-field-wrong:"+sigp, fmt.Sprintf("%s from %v: ip=%x", p.desc, p.from, ip), rp)
					}
				default:
					c.Count("errors checked", 1)
					want := int64(0)
					fmt.Sscanf(p.expect, "e%d", &want)
					if g.Y() != "e" || g.ErrCode() != want {
						c.Violation(fmt.Sprintf("expected-error-%d:%s", want, sigp), fmt.Sprintf("%s: got %q", p.desc, g.Raw), rp)
					}
				}
			}
		}
		n.Close()
	}
	c.Floor("responses checked", 1)
	c.Floor("errors checked", 1)
	c.Floor("expected silence, checked", 1)
}
