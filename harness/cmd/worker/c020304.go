package main

import (
	"fmt"
	"os"
	"sync"

	"verifharness/evid"
	"verifharness/gen"
	"verifharness/trav"
)

func init() {
	register("C02", func(c *evid.Ctx) { travWorker(c, "C02") })
	register("C03", func(c *evid.Ctx) { travWorker(c, "C03") })
	register("C04", func(c *evid.Ctx) { travWorker(c, "C04") })
}

var strategies = []string{"uniform", "fifo", "lifo", "nearest", "farthest"}

func travReport(c *evid.Ctx, prop string, l *trav.Lookup, out trav.Outcome, mode string) {
	for _, f := range l.Findings() {
		if f.Prop == prop {
			c.Violation(f.Signature, f.Detail, map[string]any{"mode": mode})
		} else {
			c.Count("findings against other properties seen here (reported by that property's check): "+f.Prop+":"+f.Signature, 1)
		}
	}
	if out.Err != nil && fmt.Sprint(out.Err) != "watchdog" {
		c.Inconclusive(out.Err.Error())
	}
}

func travWorker(c *evid.Ctx, prop string) {
	// Class mix per property.
	mix := map[string][]string{
		"C02": {"truthful", "truthful", "truthful", "mixed", "mixed", "mixed", "mixed", "mixed", "victim", "tiny"},
		"C03": {"truthful", "mixed", "mixed", "mixed", "mixed", "mixed", "mixed", "victim", "tiny", "tiny"},
		"C04": {"victim", "victim", "victim", "victim", "victim", "victim", "mixed", "mixed", "mixed", "tiny"},
	}[prop]
	pol := map[string]trav.Policy{
		"C02": {StopPct: 2, LatePct: 5, TimeoutPct: 10},
		"C03": {StopPct: 5, LatePct: 15, TimeoutPct: 10},
		"C04": {StopPct: 5, LatePct: 10, TimeoutPct: 10},
	}[prop]
	r := c.R.Fork("controlled")
	n := c.Scale(30000, 2000000)
	for i := 0; i < n && c.NumViolations() < 20; i++ {
		class := gen.Pick(r, mix)
		net := trav.GenNet(r, class)
		p := pol
		p.Strategy = strategies[i%len(strategies)]
		if class == "truthful" {
			p.StopPct, p.LatePct, p.TimeoutPct = 0, 0, 0
		}
		l := trav.NewLookup(net)
		c.WAL("lookup %d class=%s K=%d Alpha=%d nodes=%d strategy=%s", i, class, net.K, net.Alpha, len(net.Order), p.Strategy)
		out := l.Run(&trav.RandChooser{R: r}, r, p)
		c.Eval(1)
		c.Count("controlled lookups", 1)
		c.Count("controlled lookups of class "+class, 1)
		c.Count("scheduled completions", out.Completions)
		c.Count("controller steps", out.Steps)
		c.Count("stall rendezvous checked", out.Stalls)
		c.Count("queries observed in DoQuery", out.Queries)
		if out.Stopped {
			c.Count("lookups that reached Stopped", 1)
		}
		c.Distinct(l.ScheduleHash())
		if c.WantSample() && i%37 == 0 {
			c.Sample(map[string]any{"mode": "controlled", "class": class, "K": net.K, "Alpha": net.Alpha, "nodes": len(net.Order),
				"filter": net.FilterKind, "data": net.DataKind, "strategy": p.Strategy, "schedule": l.Trace, "max_in_flight": out.MaxActive})
		}
		travReport(c, prop, l, out, "controlled")
	}
	// Exhaustive enumeration of completion orders on tiny graphs.
	graphs := c.Scale(160, 2400)
	er := c.R.Fork("enum")
	allComplete := true
	for g := 0; g < graphs && c.NumViolations() < 20; g++ {
		seed := er.U64()
		ch := &trav.EnumChooser{}
		count := 0
		cls := "tiny"
		if !c.Quick() && g%2 == 1 {
			cls = "small" // 4-7 nodes: schedule spaces of up to thousands
		}
		for {
			gr := gen.New(seed, "graph")
			net := trav.GenNet(gr, cls)
			l := trav.NewLookup(net)
			out := l.Run(ch, gen.New(seed, "run"), trav.Policy{Strategy: "enum"})
			count++
			c.Eval(1)
			c.Count("enumerated schedules", 1)
			c.Count("scheduled completions", out.Completions)
			c.Distinct(l.ScheduleHash())
			travReport(c, prop, l, out, "enumerated")
			if out.Err != nil || !ch.Next() {
				break
			}
			if limit := map[string]int{"tiny": 20000, "small": 3000}[cls]; count >= limit {
				allComplete = false
				c.Count(fmt.Sprintf("%s graphs whose schedule space was cut off at %d", cls, limit), 1)
				break
			}
		}
		c.Count(cls+" graphs enumerated", 1)
	}
	c.Count("all enumerated graphs had their schedule space exhausted (1=yes)", map[bool]int{true: 1, false: 0}[allComplete])

	// Free-running stress (C03 mainly; a small dose for the others).
	fr := c.R.Fork("free")
	nf := c.Scale(4000, 300000)
	if prop != "C03" {
		nf = c.Scale(800, 48000)
	}
	if os.Getenv("VERIF_NO_YIELD") == "" {
		trav.InstallYield(c.Seed ^ uint64(c.Batch))
	}
	defer trav.RemoveYield()
	const par = 16
	var wg sync.WaitGroup
	var mu sync.Mutex
	sem := make(chan struct{}, par)
	for i := 0; i < nf; i++ {
		class := gen.Pick(fr, mix)
		net := trav.GenNet(fr, class)
		lr := fr.Fork("lookup")
		sem <- struct{}{}
		wg.Add(1)
		go func() {
			defer wg.Done()
			defer func() { <-sem }()
			l := trav.NewLookup(net)
			l.SlowFilter = lr.Intn(3) == 0
			out := l.RunFree(lr)
			mu.Lock()
			defer mu.Unlock()
			c.Eval(1)
			c.Count("free-running lookups", 1)
			c.Count("stall rendezvous checked", out.Stalls)
			c.Count("queries observed in DoQuery", out.Queries)
			if out.Stopped {
				c.Count("lookups that reached Stopped", 1)
			}
			c.Count("lookups stopped from inside DoQuery (every query then in flight must be cancelled)", out.StopsFromInside)
			c.Distinct(gen.Hash64("free", net.Class, net.K, net.Alpha, len(net.Order), out.Queries, out.Stalls))
			travReport(c, prop, l, out, "free-running")
		}()
	}
	wg.Wait()
	if prop == "C04" {
		c04server(c)
	}
	if prop == "C02" {
		c02server(c)
	}
	// Evidence floor: a run that observed nothing decides nothing.
	c.Floor("stall rendezvous checked", 1)
	c.Floor("scheduled completions", 1)
}
