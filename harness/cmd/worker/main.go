// worker runs ONE batch of ONE property's workload against the library built from the current
// /repo tree (tags verif, race detector on) and leaves result.json in -out.
package main

import (
	"flag"
	"fmt"
	"os"
	"sort"

	"verifharness/evid"
)

type propFunc func(c *evid.Ctx)

var props = map[string]propFunc{}

func register(id string, f propFunc) { props[id] = f }

func main() {
	if len(os.Args) < 2 {
		fmt.Fprintln(os.Stderr, "usage: worker <property|list> [flags]")
		os.Exit(2)
	}
	if os.Args[1] == "list" {
		var ids []string
		for id := range props {
			ids = append(ids, id)
		}
		sort.Strings(ids)
		for _, id := range ids {
			fmt.Println(id)
		}
		return
	}
	fs := flag.NewFlagSet("worker", flag.ExitOnError)
	tier := fs.String("tier", "quick", "quick|thorough")
	seed := fs.Uint64("seed", 0, "VERIF_SEED")
	batch := fs.Int("batch", 0, "batch index")
	nbatch := fs.Int("nbatch", 1, "number of batches")
	out := fs.String("out", "", "output directory")
	fs.Parse(os.Args[2:])
	f, ok := props[os.Args[1]]
	if !ok {
		fmt.Fprintln(os.Stderr, "unknown property", os.Args[1])
		os.Exit(2)
	}
	c := evid.NewCtx(os.Args[1], *tier, *seed, *batch, *nbatch, *out)
	f(c)
	if err := c.Finish(); err != nil {
		fmt.Fprintln(os.Stderr, "writing result:", err)
		os.Exit(2)
	}
}
