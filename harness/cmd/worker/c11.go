package main

import (
	"fmt"
	"net"
	"sync"

	"github.com/anacrolix/dht/v2"
	"github.com/anacrolix/dht/v2/krpc"
	peer_store "github.com/anacrolix/dht/v2/peer-store"

	"verifharness/benc"
	"verifharness/evid"
	"verifharness/gen"
	"verifharness/srv"
)

func init() { register("C11", c11) }

// countingStore wraps the bundled in-memory store; it only counts calls.
type countingStore struct {
	inner *peer_store.InMemory
	mu    sync.Mutex
	adds  int
	gets  int
}

func (s *countingStore) AddPeer(ih peer_store.InfoHash, na krpc.NodeAddr) {
	s.inner.AddPeer(ih, na)
	s.mu.Lock()
	s.adds++
	s.mu.Unlock()
}
func (s *countingStore) GetPeers(ih peer_store.InfoHash) []krpc.NodeAddr {
	s.mu.Lock()
	s.gets++
	s.mu.Unlock()
	return s.inner.GetPeers(ih)
}
func (s *countingStore) numAdds() int {
	s.mu.Lock()
	defer s.mu.Unlock()
	return s.adds
}

type endpoint struct {
	ip       string // raw bytes
	port     int
	portless bool
}

func isV4(ip net.IP) bool { return ip.To4() != nil }

// C11 — announced peers come back from get_peers, and only those, per BEP 5/32.
func c11(c *evid.Ctx) {
	r := c.R.Fork("c11")
	nh := c.Scale(200, 4000)
	for h := 0; h < nh && c.NumViolations() < 20; h++ {
		cs := &countingStore{inner: &peer_store.InMemory{}}
		n, err := srv.New(dht.ServerConfig{NoSecurity: true, PeerStore: cs})
		if err != nil {
			c.Inconclusive(err.Error())
			return
		}
		nih := r.Range(1, 8)
		ihs := make([][20]byte, nih)
		for i := range ihs {
			ihs[i] = r.ID()
		}
		// a small pool of source hosts so that re-announces from the same IP are common
		type host struct {
			ip   net.IP
			form string
		}
		var hosts []host
		for i := 0; i < r.Range(1, 10); i++ {
			switch r.Intn(3) {
			case 0:
				hosts = append(hosts, host{r.PublicIPv4(), "v4"})
			case 1:
				hosts = append(hosts, host{r.PublicIPv6(), "v6"})
			case 2:
				v4 := r.PublicIPv4()
				hosts = append(hosts, host{gen.V4Mapped(v4), "mapped"})
				if r.Bool() {
					hosts = append(hosts, host{v4, "v4"}) // same host in both forms: distinct keys
				}
			}
		}
		all := map[[20]byte][]endpoint{}          // everything ever accepted
		cur := map[[20]byte]map[string]endpoint{} // last per raw source IP
		steps := r.Range(1, 200)
		if c.Quick() && steps > 60 && r.Intn(4) != 0 {
			steps = r.Range(1, 60)
		}
		var trace []string
		tokens := map[string]string{}
		for s := 0; s < steps; s++ {
			hst := gen.Pick(r, hosts)
			src := &net.UDPAddr{IP: hst.ip, Port: gen.Pick(r, []int{1, 65535, r.Port(), r.Port()})}
			ih := gen.Pick(r, ihs)
			if r.Intn(5) < 3 {
				// announce
				tok, ok := tokens[string(hst.ip)]
				if !ok || r.Intn(4) == 0 {
					rs, err := n.Ask(srv.Query("get_peers", "g", benc.Dict{"id": r.ID(), "info_hash": ih}), &net.UDPAddr{IP: hst.ip, Port: r.Port()})
					if err != nil || len(rs) != 1 {
						c.Inconclusive(fmt.Sprintf("token fetch: %v (%d replies)", err, len(rs)))
						break
					}
					tok, _ = benc.Str(rs[0].R(), "token")
					if tok == "" {
						c.Violation("get_peers-reply-without-token", fmt.Sprintf("history %v: %q", trace, rs[0].Raw), nil)
						break
					}
					tokens[string(hst.ip)] = tok
				}
				a := benc.Dict{"id": r.ID(), "info_hash": ih, "token": tok}
				port := gen.Pick(r, []int{1, 65535, 80, r.Port(), r.Port()})
				mode := r.Intn(10)
				ep := endpoint{ip: string(hst.ip)}
				badTok := false
				switch {
				case mode < 5:
					a["port"] = int64(port)
					ep.port = port
				case mode < 7:
					a["port"] = int64(port)
					a["implied_port"] = int64(1)
					ep.port = src.Port
				case mode < 8:
					a["implied_port"] = int64(1)
					ep.port = src.Port
				case mode < 9:
					ep.portless = true // neither port nor implied_port: outcome for this IP is don't-care
				default:
					a["port"] = int64(port)
					a["token"] = tok + "!"
					badTok = true
				}
				before := cs.numAdds()
				trace = append(trace, fmt.Sprintf("announce(ih%x from %v[%s] %v)", ih[:2], src, hst.form, a))
				c.WAL("h%d %s", h, trace[len(trace)-1])
				rs, err := n.Ask(srv.Query("announce_peer", "a", a), src)
				if err != nil {
					c.Inconclusive(err.Error())
					break
				}
				after := cs.numAdds()
				c.Eval(1)
				if badTok {
					c.Count("rejected announces checked", 1)
					if after != before || len(rs) != 0 {
						c.Violation("bad-token-announce-reached-store", fmt.Sprintf("history %v", trace), nil)
					}
					continue
				}
				c.Count("accepted announces", 1)
				if after != before+1 || len(rs) != 1 || rs[0].Y() != "r" {
					c.Violation("valid-announce-not-stored-or-not-answered", fmt.Sprintf("AddPeer calls %d, replies %d; history %v", after-before, len(rs), trace), nil)
					continue
				}
				all[ih] = append(all[ih], ep)
				if cur[ih] == nil {
					cur[ih] = map[string]endpoint{}
				}
				cur[ih][ep.ip] = ep
				continue
			}
			// get_peers
			a := benc.Dict{"id": r.ID(), "info_hash": ih}
			var want []string
			switch r.Intn(7) {
			case 1:
				a["want"] = benc.List{}
			case 2:
				a["want"], want = benc.List{"n4"}, []string{"n4"}
			case 3:
				a["want"], want = benc.List{"n6"}, []string{"n6"}
			case 4:
				a["want"], want = benc.List{"n4", "n6"}, []string{"n4", "n6"}
			case 5:
				a["want"], want = benc.List{"zz"}, []string{"zz"}
			}
			want4, want6 := isV4(src.IP), !isV4(src.IP)
			if len(want) > 0 {
				want4, want6 = false, false
				for _, w := range want {
					if w == "n4" {
						want4 = true
					}
					if w == "n6" {
						want6 = true
					}
				}
			}
			trace = append(trace, fmt.Sprintf("get_peers(ih%x from %v[%s] want=%v)", ih[:2], src, hst.form, want))
			c.WAL("h%d %s", h, trace[len(trace)-1])
			rs, err := n.Ask(srv.Query("get_peers", "q", a), src)
			if err != nil {
				c.Inconclusive(err.Error())
				break
			}
			c.Eval(1)
			c.Count("get_peers replies checked", 1)
			c.Distinct(gen.Hash64("gp", hst.form, fmt.Sprint(want), len(all[ih]), len(cur[ih])))
			rp := map[string]any{"history": trace}
			if len(rs) != 1 || rs[0].Y() != "r" {
				c.Violation("get_peers-not-answered", fmt.Sprintf("%d replies; history %v", len(rs), trace), rp)
				continue
			}
			ret := rs[0].R()
			if _, ok := benc.Str(ret, "token"); !ok {
				c.Violation("get_peers-reply-without-token", fmt.Sprintf("history %v: %q", trace, rs[0].Raw), rp)
			}
			vals, _ := benc.Lst(ret, "values")
			type got struct {
				ip   net.IP
				port int
			}
			var gots []got
			bad := false
			for _, v := range vals {
				s, ok := v.(string)
				if !ok || len(s) != 6 && len(s) != 18 {
					c.Violation("value-not-6-or-18-bytes", fmt.Sprintf("value %x; history %v", v, trace), rp)
					bad = true
					break
				}
				if len(s) == 6 && !want4 {
					c.Violation("ipv4-value-sent-to-requester-not-wanting-ipv4", fmt.Sprintf("value %x want=%v source %v; history %v", s, want, src, trace), rp)
					bad = true
				}
				if len(s) == 18 && !want6 {
					c.Violation("ipv6-value-sent-to-requester-not-wanting-ipv6", fmt.Sprintf("value %x want=%v source %v; history %v", s, want, src, trace), rp)
					bad = true
				}
				gots = append(gots, got{net.IP(s[:len(s)-2]), int(s[len(s)-2])<<8 | int(s[len(s)-1])})
			}
			if bad {
				continue
			}
			if len(vals) > 0 {
				c.Count("get_peers replies with values", 1)
			}
			for _, g := range gots {
				ok := false
				for _, e := range all[ih] {
					if net.IP(e.ip).Equal(g.ip) && (e.port == g.port || e.portless && g.port == 0) {
						ok = true
					}
				}
				if !ok {
					c.Violation("returned-endpoint-never-announced", fmt.Sprintf("%v:%d returned for ih%x but never announced for it; history %v", g.ip, g.port, ih[:2], trace), rp)
					break
				}
			}
			for _, e := range cur[ih] {
				if e.portless {
					continue
				}
				fam4 := isV4(net.IP(e.ip))
				if fam4 && !want4 || !fam4 && !want6 {
					continue
				}
				found := false
				for _, g := range gots {
					if net.IP(e.ip).Equal(g.ip) && g.port == e.port {
						found = true
					}
				}
				if !found {
					c.Violation("current-endpoint-missing-from-get_peers", fmt.Sprintf("%v:%d is the latest announce of its IP for ih%x, requester wants its family (want=%v source %v), but the reply holds %v; history %v",
						net.IP(e.ip), e.port, ih[:2], want, src, gots, trace), rp)
					break
				}
			}
			if c.WantSample() && len(vals) > 1 && h%17 == 0 {
				c.Sample(map[string]any{"history": trace, "values_returned": len(vals)})
			}
		}
		n.Close()
	}
	c11bursts(c)
	c.Floor("get_peers replies with values", 1)
}


// c11bursts: many hosts announce for a few infohashes in a single burst (the server applies each
// announce from its own goroutine, so the store sees concurrent AddPeer calls for different
// swarms), interleaved with get_peers; afterwards every swarm must hold exactly its own endpoints.
func c11bursts(c *evid.Ctx) {
	r := c.R.Fork("bursts")
	rounds := c.Scale(40, 1500)
	for round := 0; round < rounds && c.NumViolations() < 20; round++ {
		cs := &countingStore{inner: &peer_store.InMemory{}}
		n, err := srv.New(dht.ServerConfig{NoSecurity: true, PeerStore: cs})
		if err != nil {
			c.Inconclusive(err.Error())
			return
		}
		nih := r.Range(1, 4)
		ihs := make([][20]byte, nih)
		for i := range ihs {
			ihs[i] = r.ID()
		}
		B := r.Range(2, 64)
		var alloc gen.AddrAlloc
		type host struct {
			src  *net.UDPAddr
			tok  string
			port int
			ih   int
		}
		hosts := make([]host, B)
		var msgs [][]byte
		var from []*net.UDPAddr
		for i := range hosts {
			if r.Intn(4) == 0 {
				hosts[i].src = alloc.V6()
			} else {
				hosts[i].src = alloc.V4()
			}
			hosts[i].ih = r.Intn(nih)
			if i < nih {
				hosts[i].ih = i // every swarm gets at least one member
			}
			msgs = append(msgs, srv.Query("get_peers", "t", benc.Dict{"id": r.ID(), "info_hash": ihs[hosts[i].ih]}))
			from = append(from, hosts[i].src)
		}
		by, _, err := n.Exchange(nil, msgs, from)
		if err != nil {
			c.Inconclusive(err.Error())
			n.Close()
			return
		}
		for i := range hosts {
			if rs := by[hosts[i].src.String()]; len(rs) == 1 {
				hosts[i].tok, _ = benc.Str(rs[0].R(), "token")
			}
			hosts[i].port = r.Port()
		}
		announce := func(h host) []byte {
			return srv.Query("announce_peer", "a", benc.Dict{"id": r.ID(), "info_hash": ihs[h.ih], "port": int64(h.port), "token": h.tok})
		}
		// the swarms exist before the burst: one member each, announced one at a time
		for i := 0; i < nih && i < B; i++ {
			if _, err := n.Ask(announce(hosts[i]), hosts[i].src); err != nil {
				c.Inconclusive(err.Error())
				n.Close()
				return
			}
		}
		msgs, from = nil, nil
		asked := map[string]int{}
		for i := nih; i < B; i++ {
			msgs = append(msgs, announce(hosts[i]))
			from = append(from, hosts[i].src)
			if i%3 == 0 {
				k := r.Intn(nih)
				src := alloc.V4()
				asked[src.String()] = k
				msgs = append(msgs, srv.Query("get_peers", "g", benc.Dict{"id": r.ID(), "info_hash": ihs[k], "want": benc.List{"n4", "n6"}}))
				from = append(from, src)
			}
		}
		if len(msgs) > 0 {
			byB, _, err := n.Exchange(nil, msgs, from)
			if err != nil {
				c.Inconclusive(err.Error())
				n.Close()
				return
			}
			// replies produced in the middle of the burst: whatever they list must belong to the
			// swarm that was asked for
			for src, k := range asked {
				for _, rp := range byB[src] {
					vals, _ := benc.Lst(rp.R(), "values")
					for _, v := range vals {
						sv, ok := v.(string)
						if !ok || len(sv) < 6 {
							continue
						}
						ep := (&net.UDPAddr{IP: net.IP(sv[:len(sv)-2]), Port: int(sv[len(sv)-2])<<8 | int(sv[len(sv)-1])}).String()
						okEp := false
						for _, h := range hosts {
							if h.ih == k && (&net.UDPAddr{IP: h.src.IP, Port: h.port}).String() == ep {
								okEp = true
							}
						}
						c.Count("values in replies produced mid-burst checked", 1)
						if !okEp {
							c.Violation("returned-endpoint-never-announced:mid-burst", fmt.Sprintf("%d hosts, %d infohashes: a get_peers answered in the middle of the burst lists %s, which never announced for the infohash asked about", B, nih, ep), nil)
						}
					}
				}
			}
		}
		c.Eval(1)
		c.Count("announce bursts checked", 1)
		c.Distinct(gen.Hash64("burst", B, nih, round))
		for hi, ih := range ihs {
			rs, err := n.Ask(srv.Query("get_peers", "f", benc.Dict{"id": r.ID(), "info_hash": ih, "want": benc.List{"n4", "n6"}}), alloc.V4())
			if err != nil || len(rs) != 1 {
				c.Violation("get_peers-not-answered", fmt.Sprintf("after a burst of %d announces: %d replies", B, len(rs)), nil)
				break
			}
			vals, _ := benc.Lst(rs[0].R(), "values")
			got := map[string]bool{}
			for _, v := range vals {
				if s, ok := v.(string); ok && len(s) >= 6 {
					got[(&net.UDPAddr{IP: net.IP(s[:len(s)-2]), Port: int(s[len(s)-2])<<8 | int(s[len(s)-1])}).String()] = true
				}
			}
			c.Count("get_peers replies with values", 1)
			want := map[string]bool{}
			for _, h := range hosts {
				if h.ih == hi {
					want[(&net.UDPAddr{IP: h.src.IP, Port: h.port}).String()] = true
				}
			}
			for w := range want {
				if !got[w] {
					c.Violation("current-endpoint-missing-from-get_peers:burst", fmt.Sprintf("%d hosts announced for %d infohashes in one burst; %s is missing from its swarm (%d values returned, %d expected)", B, nih, w, len(vals), len(want)), nil)
					break
				}
			}
			for g := range got {
				if !want[g] {
					c.Violation("returned-endpoint-never-announced:burst", fmt.Sprintf("%d hosts, %d infohashes: %s is served for an infohash it never announced", B, nih, g), nil)
					break
				}
			}
		}
		n.Close()
	}
}
