package main

import (
	"context"
	"crypto/ed25519"
	"fmt"
	"math"
	"net"
	"strings"
	"sync"
	"sync/atomic"
	"time"

	"github.com/anacrolix/dht/v2"
	"github.com/anacrolix/dht/v2/bep44"
	"github.com/anacrolix/dht/v2/krpc"
	"github.com/anishathalye/porcupine"

	"verifharness/benc"
	"verifharness/evid"
	"verifharness/gen"
	"verifharness/ref"
	"verifharness/srv"
)

func init() { register("C13", c13) }

// ---- the BEP 44 register model (independent of the library) ----

type regState struct {
	exists bool
	seq    int64
	v      string
}

type regPut struct {
	seq int64
	cas int64 // 0 = absent
	v   string
}

// outcome: 0 = accepted, 301, 302, other codes = -1
func regLegal(st regState, p regPut, outcome int) (bool, regState) {
	switch outcome {
	case 0:
		if !st.exists {
			return true, regState{true, p.seq, p.v}
		}
		if p.seq == st.seq && p.v == st.v {
			return true, st
		}
		if p.seq > st.seq && (p.cas == 0 || p.cas == st.seq) {
			return true, regState{true, p.seq, p.v}
		}
		return false, st
	case 302:
		return st.exists && (p.seq < st.seq || p.seq == st.seq && p.v != st.v), st
	case 301:
		return st.exists && p.cas != 0 && p.cas != st.seq, st
	}
	return false, st
}

func outcomeOf(err error) int {
	if err == nil {
		return 0
	}
	if k, ok := err.(krpc.Error); ok {
		return k.Code
	}
	return -1
}

type c13key struct {
	pub  ed25519.PublicKey
	priv ed25519.PrivateKey
	salt []byte
}

func (k c13key) target() [20]byte { return ref.SHA1(k.pub, k.salt) }

func (k c13key) item(p regPut) *bep44.Item {
	it := &bep44.Item{V: p.v, Salt: k.salt, Seq: p.seq, Cas: p.cas}
	copy(it.K[:], k.pub)
	copy(it.Sig[:], ed25519.Sign(k.priv, ref.Bep44SignBuf(k.salt, p.seq, benc.Encode(p.v))))
	return it
}

func (k c13key) wireArgs(p regPut, token string, sender [20]byte) benc.Dict {
	a := benc.Dict{"id": sender, "token": token, "v": p.v, "seq": p.seq, "k": string(k.pub),
		"sig": string(ed25519.Sign(k.priv, ref.Bep44SignBuf(k.salt, p.seq, benc.Encode(p.v))))}
	if len(k.salt) > 0 {
		a["salt"] = string(k.salt)
	}
	if p.cas != 0 {
		a["cas"] = p.cas
	}
	return a
}

func c13(c *evid.Ctx) {
	c13sequential(c)
	c13concurrent(c)
	c13server(c)
	c13faults(c)
	c13expiry(c)
}

func pickSeq(r *gen.Rand, st regState) int64 {
	base := []int64{0, 1, 2, 3, math.MaxInt64 - 1, math.MaxInt64, -1, -5}
	if st.exists && r.Bool() {
		return gen.Pick(r, []int64{st.seq, st.seq + 1, st.seq - 1, st.seq + 2})
	}
	return gen.Pick(r, base)
}

func pickCas(r *gen.Rand, st regState) int64 {
	switch r.Intn(6) {
	case 0, 1:
		return 0
	case 2:
		return st.seq
	case 3:
		return st.seq + 1
	case 4:
		return st.seq - 1
	}
	return int64(r.Intn(100)) + 7
}

func c13sequential(c *evid.Ctx) {
	r := c.R.Fork("seq")
	nh := c.Scale(1000, 15000)
	var alloc gen.AddrAlloc
	n, err := srv.New(dht.ServerConfig{NoSecurity: true})
	if err != nil {
		c.Inconclusive(err.Error())
		return
	}
	defer n.Close()
	for h := 0; h < nh && c.NumViolations() < 20; h++ {
		pub, priv := edKey(r)
		key := c13key{pub, priv, r.Bytes(gen.Pick(r, []int{0, 0, 4}))}
		st := regState{}
		var trace []string
		steps := r.Range(2, 40)
		vals := []string{"a", "b", "c"}
		for s := 0; s < steps; s++ {
			if r.Intn(4) == 0 {
				// get, sometimes with a seq argument
				a := benc.Dict{"id": r.ID(), "target": key.target()}
				var argSeq *int64
				if r.Bool() {
					v := pickSeq(r, st)
					argSeq = &v
					a["seq"] = v
				}
				rs, err := n.Ask(srv.Query("get", "g", a), alloc.V4())
				if err != nil || len(rs) != 1 || rs[0].Y() != "r" {
					c.Violation("get-not-answered", fmt.Sprintf("history %v", trace), nil)
					break
				}
				ret := rs[0].R()
				trace = append(trace, fmt.Sprintf("get(seq=%v)", fmtPtr(argSeq)))
				c.Eval(1)
				c.Count("sequential gets judged", 1)
				gv, hasV := ret["v"]
				gs, hasS := benc.Int(ret, "seq")
				switch {
				case !st.exists:
					if hasV || hasS {
						c.Violation("get-serves-item-never-stored", fmt.Sprintf("history %v: v=%v seq=%v", trace, gv, gs), nil)
					}
				case !hasS || gs != st.seq:
					c.Violation("get-returns-wrong-seq", fmt.Sprintf("history %v: model seq=%d, got present=%v seq=%d", trace, st.seq, hasS, gs), nil)
				case argSeq != nil && st.seq <= *argSeq:
					if hasV {
						c.Violation("get-with-seq-sends-value-that-is-not-newer", fmt.Sprintf("history %v: stored seq %d, asked for newer than %d, v sent", trace, st.seq, *argSeq), nil)
					}
				default:
					if !hasV || gv != st.v {
						c.Violation("get-returns-wrong-value", fmt.Sprintf("history %v: model v=%q got %v (present=%v)", trace, st.v, gv, hasV), nil)
					}
				}
				continue
			}
			p := regPut{seq: pickSeq(r, st), cas: pickCas(r, st), v: gen.Pick(r, vals)}
			if st.exists && r.Intn(3) == 0 {
				p.v = st.v
			}
			var out int
			via := "wire"
			if r.Intn(3) == 0 {
				via = "api"
				res := n.S.Put(context.Background(), dht.NewAddr(&net.UDPAddr{IP: net.IP{203, 0, 113, 9}, Port: 9}), key.item(p).ToPut(), "tok", dht.QueryRateLimiting{})
				n.Quiesce(nil)
				if res.Err != nil && strings.Contains(res.Err.Error(), "timed out") {
					out = 0
				} else {
					out = outcomeOf(res.Err)
				}
			} else {
				src := alloc.V4()
				tok, err := n.Token(src, r.ID())
				if err != nil {
					c.Inconclusive(err.Error())
					return
				}
				rs, err := n.Ask(srv.Query("put", "p", key.wireArgs(p, tok, r.ID())), src)
				if err != nil || len(rs) != 1 {
					c.Violation("put-with-valid-token-not-answered-once", fmt.Sprintf("history %v: %d replies", trace, len(rs)), nil)
					break
				}
				if rs[0].Y() == "r" {
					out = 0
				} else {
					out = int(rs[0].ErrCode())
				}
			}
			trace = append(trace, fmt.Sprintf("put[%s](seq=%d cas=%d v=%s)->%d", via, p.seq, p.cas, p.v, out))
			c.WAL("h%d %s", h, trace[len(trace)-1])
			c.Eval(1)
			c.Count("sequential puts judged", 1)
			c.Count(fmt.Sprintf("sequential put outcomes: %d", out), 1)
			c.Distinct(gen.Hash64("seq", st.exists, sgn64(p.seq-st.seq), p.cas == 0, p.cas == st.seq, p.v == st.v, out, via))
			legal, next := regLegal(st, p, out)
			if !legal {
				c.Violation(fmt.Sprintf("put-outcome-%d-illegal:%s", out, c13class(st, p)), fmt.Sprintf("stored (exists=%v seq=%d v=%q), put seq=%d cas=%d v=%q via %s answered %d; history %v",
					st.exists, st.seq, st.v, p.seq, p.cas, p.v, via, out, trace), map[string]any{"history": trace})
				break
			}
			st = next
		}
		if c.WantSample() && h%97 == 0 {
			c.Sample(map[string]any{"sequential_history": trace})
		}
	}
}

func c13class(st regState, p regPut) string {
	s := "seq-"
	switch {
	case !st.exists:
		return "nothing-stored"
	case p.seq < st.seq:
		s += "lower"
	case p.seq == st.seq:
		s += "equal"
	default:
		s += "higher"
	}
	switch {
	case p.cas == 0:
		s += ",cas-absent"
	case p.cas == st.seq:
		s += ",cas-matches"
	default:
		s += ",cas-mismatch"
	}
	if p.v == st.v {
		s += ",same-value"
	}
	return s
}

func sgn64(x int64) int {
	switch {
	case x < 0:
		return -1
	case x > 0:
		return 1
	}
	return 0
}

func fmtPtr(p *int64) string {
	if p == nil {
		return "-"
	}
	return fmt.Sprint(*p)
}

// ---- gated store: every Get/Put/Del parks until the controller grants it ----

type gateReq struct {
	worker int
	op     string
	grant  chan struct{}
}

type gatedStore struct {
	inner   *bep44.Memory
	mu      sync.Mutex
	waiting []*gateReq
	log     []string
	who     func() int // identifies the calling worker
	regFn   func(gid int64, w int)
	enabled atomic.Bool
}

func (g *gatedStore) gate(op string) {
	if !g.enabled.Load() {
		return
	}
	req := &gateReq{worker: g.who(), op: op, grant: make(chan struct{})}
	g.mu.Lock()
	g.waiting = append(g.waiting, req)
	g.mu.Unlock()
	<-req.grant
}

func (g *gatedStore) Put(i *bep44.Item) error {
	g.gate("Put")
	return g.inner.Put(i)
}
func (g *gatedStore) Get(t bep44.Target) (*bep44.Item, error) {
	g.gate("Get")
	return g.inner.Get(t)
}
func (g *gatedStore) Del(t bep44.Target) error {
	g.gate("Del")
	return g.inner.Del(t)
}

type c13op struct {
	isGet bool
	put   regPut
}

type c13out struct {
	outcome int
	found   bool
	seq     int64
	v       string
}

var c13model = porcupine.Model{
	Init: func() interface{} { return regState{} },
	Step: func(state, input, output interface{}) (bool, interface{}) {
		st := state.(regState)
		op := input.(c13op)
		out := output.(c13out)
		if op.isGet {
			if !st.exists {
				return !out.found, st
			}
			return out.found && out.seq == st.seq && out.v == st.v, st
		}
		ok, next := regLegal(st, op.put, out.outcome)
		return ok, next
	},
	DescribeOperation: func(input, output interface{}) string {
		op := input.(c13op)
		out := output.(c13out)
		if op.isGet {
			return fmt.Sprintf("get -> found=%v seq=%d v=%s", out.found, out.seq, out.v)
		}
		return fmt.Sprintf("put(seq=%d cas=%d v=%s) -> %d", op.put.seq, op.put.cas, op.put.v, out.outcome)
	},
}

// goroutine-local worker identity via a map keyed by a token passed through context is not
// available inside the Store interface, so each worker runs on its own Wrapper call and registers
// its goroutine in a sync.Map keyed by goroutine-unique channel... simpler: one gated store per
// scenario and workers announce themselves before calling.
type workerIDs struct {
	mu  sync.Mutex
	ids map[int64]int
}

func c13concurrent(c *evid.Ctx) {
	r := c.R.Fork("conc")
	scen := c.Scale(480, 8000)
	for s := 0; s < scen && c.NumViolations() < 20; s++ {
		pub, priv := edKey(r)
		key := c13key{pub, priv, nil}
		W := gen.Pick(r, []int{2, 2, 3, 3, 4})
		// Initial state: nothing (0), a live item at seq 1 (1), or an item at seq 0 that is past its
		// expiry but has not been deleted yet (2).
		pre := r.Intn(3)
		ops := make([]c13op, W)
		for i := range ops {
			if r.Intn(5) == 0 {
				ops[i] = c13op{isGet: true}
			} else {
				ops[i] = c13op{put: regPut{seq: int64(r.Range(1, 4)), cas: gen.Pick(r, []int64{0, 0, 1, 2}), v: gen.Pick(r, []string{"a", "b"})}}
				if pre == 2 {
					ops[i].put.cas = 0
				}
			}
		}
		if pre == 2 && W >= 2 {
			ops[0] = c13op{isGet: true} // the read that finds the expired item and goes on to delete it
		}
		// Enumerate grant schedules for this op mix (cut off at a bound for W=4).
		ch := &enumChooser{}
		schedules := 0
		for {
			hist, grants, err := c13runSchedule(key, pre, ops, ch)
			schedules++
			c.Eval(1)
			c.Count("concurrent schedules executed", 1)
			c.Distinct(gen.Hash64("conc", W, pre, fmt.Sprint(ops), grants))
			if err != nil {
				c.Inconclusive(err.Error())
				break
			}
			res, info := porcupine.CheckOperationsVerbose(c13model, hist, 2*time.Minute)
			_ = info
			switch res {
			case porcupine.Illegal:
				var lines []string
				for _, o := range hist {
					lines = append(lines, fmt.Sprintf("[client %d, %d..%d] %s", o.ClientId, o.Call, o.Return, c13model.DescribeOperation(o.Input, o.Output)))
				}
				c.Violation("concurrent-history-not-linearizable", fmt.Sprintf("initial state %v (0 none, 1 live item seq 1, 2 expired item seq 0); store calls granted in order %s; history:\n%s", pre, grants, strings.Join(lines, "\n")),
					map[string]any{"grants": grants, "history": lines})
			case porcupine.Unknown:
				c.Inconclusive("linearizability checker timed out")
			}
			if c.WantSample() && s%37 == 0 && schedules == 1 {
				c.Sample(map[string]any{"concurrent_ops": fmt.Sprint(ops), "initial_item": pre, "store_calls_granted": grants})
			}
			if !ch.next() || schedules >= 400 || c.NumViolations() >= 20 {
				break
			}
		}
		c.Count("op mixes explored", 1)
	}
}

type enumChooser struct {
	prefix, widths []int
	pos            int
}

func (e *enumChooser) choose(n int) int {
	if e.pos < len(e.prefix) {
		v := e.prefix[e.pos]
		e.widths[e.pos] = n
		e.pos++
		if v >= n {
			v = n - 1
		}
		return v
	}
	e.prefix = append(e.prefix, 0)
	e.widths = append(e.widths, n)
	e.pos++
	return 0
}

func (e *enumChooser) next() bool {
	e.prefix, e.widths = e.prefix[:e.pos], e.widths[:e.pos]
	for i := len(e.prefix) - 1; i >= 0; i-- {
		if e.prefix[i]+1 < e.widths[i] {
			e.prefix, e.widths = e.prefix[:i+1], e.widths[:i+1]
			e.prefix[i]++
			e.pos = 0
			return true
		}
	}
	return false
}

var c13clock atomic.Int64

// c13runSchedule runs the ops concurrently against a fresh Wrapper over a gated store, granting
// store calls in the order the chooser dictates among the workers that have arrived.
func c13runSchedule(key c13key, pre int, ops []c13op, ch *enumChooser) (hist []porcupine.Operation, grants string, err error) {
	gs := newGatedStore()
	w := bep44.NewWrapper(gs, 2*time.Hour)
	if pre == 2 {
		if e := w.Put(key.item(regPut{seq: 0, v: "old"})); e != nil {
			return nil, "", fmt.Errorf("pre-populating: %v", e)
		}
		it, e := gs.inner.Get(key.target())
		if e != nil {
			return nil, "", fmt.Errorf("pre-populating: %v", e)
		}
		bep44.VerifAgeItem(it, 3*time.Hour)
	}
	if pre == 1 {
		if e := w.Put(key.item(regPut{seq: 1, v: "init"})); e != nil {
			return nil, "", fmt.Errorf("pre-populating: %v", e)
		}
		hist = append(hist, porcupine.Operation{ClientId: len(ops), Input: c13op{put: regPut{seq: 1, v: "init"}}, Call: c13clock.Add(1), Output: c13out{}, Return: c13clock.Add(1)})
	}
	// Worker identity: each worker goroutine stores its index under a goroutine-specific key. The
	// Store interface carries no context, so identity comes from a per-worker store view.
	views := make([]*workerView, len(ops))
	var wg sync.WaitGroup
	var hmu sync.Mutex
	finished := atomic.Int32{}
	for i := range ops {
		views[i] = &workerView{gs: gs, id: i}
	}
	gs.enabled.Store(true)
	for i, op := range ops {
		i, op := i, op
		ww := bep44.NewWrapper(views[i], 2*time.Hour)
		_ = ww
		wg.Add(1)
		go func() {
			defer wg.Done()
			defer finished.Add(1)
			call := c13clock.Add(1)
			var out c13out
			// All workers share ONE wrapper (the thing under test); identity is carried by a
			// goroutine-local registration in the gated store.
			gs.register(i)
			if op.isGet {
				it, e := w.Get(key.target())
				if e == nil {
					out = c13out{found: true, seq: it.Seq, v: fmt.Sprint(it.V)}
				}
			} else {
				out.outcome = outcomeOf(w.Put(key.item(op.put)))
			}
			ret := c13clock.Add(1)
			hmu.Lock()
			hist = append(hist, porcupine.Operation{ClientId: i, Input: op, Call: call, Output: out, Return: ret})
			hmu.Unlock()
		}()
	}
	var gl []string
	deadline := time.Now().Add(60 * time.Second)
	for int(finished.Load()) < len(ops) {
		// Wait until every unfinished worker has arrived, or nothing changes for a while (workers
		// held up by a lock inside the wrapper cannot arrive).
		stable := 0
		lastArr := -1
		for {
			gs.mu.Lock()
			arr := len(gs.waiting)
			gs.mu.Unlock()
			fin := int(finished.Load())
			if arr+fin >= len(ops) {
				break
			}
			if arr == lastArr {
				stable++
			} else {
				stable, lastArr = 0, arr
			}
			if arr > 0 && stable > 40 {
				break
			}
			if fin >= len(ops) {
				break
			}
			time.Sleep(25 * time.Microsecond)
			if time.Now().After(deadline) {
				return nil, "", fmt.Errorf("gated schedule did not complete")
			}
		}
		gs.mu.Lock()
		if len(gs.waiting) == 0 {
			gs.mu.Unlock()
			continue
		}
		// canonical order by worker id
		for a := 1; a < len(gs.waiting); a++ {
			for b := a; b > 0 && gs.waiting[b].worker < gs.waiting[b-1].worker; b-- {
				gs.waiting[b], gs.waiting[b-1] = gs.waiting[b-1], gs.waiting[b]
			}
		}
		k := ch.choose(len(gs.waiting))
		req := gs.waiting[k]
		gs.waiting = append(gs.waiting[:k], gs.waiting[k+1:]...)
		gs.mu.Unlock()
		gl = append(gl, fmt.Sprintf("w%d.%s", req.worker, req.op))
		close(req.grant)
	}
	wg.Wait()
	gs.enabled.Store(false)
	// A final read after everything returned: what was acknowledged must be what is served.
	{
		call := c13clock.Add(1)
		var out c13out
		if it, e := w.Get(key.target()); e == nil {
			out = c13out{found: true, seq: it.Seq, v: fmt.Sprint(it.V)}
		}
		hist = append(hist, porcupine.Operation{ClientId: len(ops) + 1, Input: c13op{isGet: true}, Call: call, Output: out, Return: c13clock.Add(1)})
	}
	return hist, strings.Join(gl, " "), nil
}

type workerView struct {
	gs *gatedStore
	id int
}

func (v *workerView) Put(i *bep44.Item) error                 { return v.gs.Put(i) }
func (v *workerView) Get(t bep44.Target) (*bep44.Item, error) { return v.gs.Get(t) }
func (v *workerView) Del(t bep44.Target) error                { return v.gs.Del(t) }

// goroutine identity: the runtime's goroutine id parsed from the stack header (harness-only use).
// Goroutines that never registered (the server's serve loop) are worker 0.
func newGatedStore() *gatedStore {
	g := &gatedStore{inner: bep44.NewMemory()}
	ids := map[int64]int{}
	var imu sync.Mutex
	g.who = func() int {
		imu.Lock()
		defer imu.Unlock()
		return ids[curGoroutine()]
	}
	g.regFn = func(gid int64, w int) {
		imu.Lock()
		ids[gid] = w
		imu.Unlock()
	}
	return g
}

func (g *gatedStore) register(worker int) { g.regFn(curGoroutine(), worker) }
