package main

import (
	"fmt"
	"net"
	"os"
	"sort"
	"sync"
	"syscall"
	"time"

	"github.com/anacrolix/dht/v2"

	"verifharness/benc"
	"verifharness/census"
	"verifharness/evid"
	"verifharness/gen"
	"verifharness/ref"
	"verifharness/simnet"
	"verifharness/srv"
)

func init() { register("C16", c16) }

type c16node struct {
	addr  *net.UDPAddr
	id    [20]byte
	kind  string // token notoken emptytoken values error silent
	token string
	lists []int // indexes of nodes it names
	// announce_peer behaviour: ok silent hang error
	annKind string
	errno   syscall.Errno // annKind "writefail": every write of announce_peer to this node fails with it
}

type c16pending struct {
	node *c16node
	t    string
}

// C16 — announce hands each node back its own token, and always finishes.
func c16(c *evid.Ctx) {
	r := c.R.Fork("c16")
	runs := c.Scale(300, 5000)
	for run := 0; run < runs && c.NumViolations() < 20; run++ {
		c16run(c, r, run)
	}
	c.Floor("announce_peer queries checked", 1)
	c.Floor("announces that finished", 1)
}

func c16run(c *evid.Ctx, r *gen.Rand, run int) {
	ih := r.ID()
	N := r.Range(1, 40)
	nodes := make([]*c16node, N)
	byAddr := map[string]*c16node{}
	for i := range nodes {
		var ip net.IP
		if r.Intn(5) == 0 {
			ip = r.PublicIPv6()
		} else {
			ip = r.PublicIPv4()
		}
		nd := &c16node{addr: &net.UDPAddr{IP: ip, Port: r.Port()}, id: r.IDWithPrefix(ih, r.Intn(20)), token: fmt.Sprintf("token-of-%d-%x", i, r.Bytes(3))}
		nd.kind = gen.Pick(r, []string{"token", "token", "token", "token", "token", "notoken", "emptytoken", "values", "error", "silent"})
		nd.annKind = gen.Pick(r, []string{"ok", "ok", "ok", "ok", "silent", "error", "writefail"})
		nd.errno = gen.Pick(r, []syscall.Errno{syscall.ENOBUFS, syscall.ENOBUFS, syscall.EAGAIN, syscall.EPERM, syscall.ENETUNREACH, syscall.EMSGSIZE})
		if nd.kind == "emptytoken" {
			nd.token = ""
		}
		nodes[i] = nd
		byAddr[nd.addr.String()] = nd
	}
	for _, nd := range nodes {
		for j := 0; j < r.Intn(9); j++ {
			nd.lists = append(nd.lists, r.Intn(N))
		}
	}
	hang := r.Intn(6) == 0 // one responder never answers announce_peer; only Close ends that
	if hang {
		for _, nd := range nodes {
			if nd.kind == "token" {
				nd.annKind = "hang"
				break
			}
		}
	}
	// options
	opt := r.Intn(5)
	port, implied, announcing, scrape := 0, false, true, false
	switch opt {
	case 0:
		port = r.Port()
	case 1:
		implied = true
	case 2:
		port, implied = r.Port(), true
	case 3:
		announcing = false
	case 4:
		port, scrape = r.Port(), true
	}
	consumer := gen.Pick(r, []string{"always", "always", "always", "stops", "never"})
	stopAt := -1 // controller step at which Close/StopTraversing is called
	stopKind := ""
	if r.Intn(3) == 0 {
		stopAt = r.Intn(N + 2)
		stopKind = gen.Pick(r, []string{"close", "stop-traversing"})
	}
	desc := fmt.Sprintf("nodes=%d port=%d implied=%v announcing=%v scrape=%v consumer=%s stop=%s@%d hang=%v", N, port, implied, announcing, scrape, consumer, stopKind, stopAt, hang)
	c.WAL("run %d: %s", run, desc)

	// Which goroutine is sending to whom: lets the resend-delay callback give silent peers a short
	// time-out and everyone else none at all (the controller decides when they are answered).
	var gmu sync.Mutex
	gdest := map[int64]string{}
	var mu sync.Mutex
	var pending []c16pending
	type annSeen struct {
		to   string
		args benc.Dict
	}
	var announces []annSeen
	scrapeWrong := 0
	writeFails := 0
	var n *srv.Node
	shortFor := func(dest string) bool {
		nd := byAddr[dest]
		return nd == nil || nd.kind == "silent"
	}
	cfg := dht.ServerConfig{NoSecurity: true,
		StartingNodes: func() ([]dht.Addr, error) {
			var out []dht.Addr
			for i := 0; i < 1+r.Intn(3) && i < N; i++ {
				out = append(out, dht.NewAddr(nodes[i].addr))
			}
			return out, nil
		},
		QueryResendDelay: func() time.Duration {
			gmu.Lock()
			d := gdest[curGoroutine()]
			gmu.Unlock()
			if d == "short" {
				return time.Millisecond
			}
			return time.Hour
		}}
	startN := 1 + r.Intn(3)
	cfg.StartingNodes = func() ([]dht.Addr, error) {
		var out []dht.Addr
		for i := 0; i < startN && i < N; i++ {
			out = append(out, dht.NewAddr(nodes[i].addr))
		}
		return out, nil
	}
	n, err := srv.New(cfg)
	if err != nil {
		c.Inconclusive(err.Error())
		return
	}
	defer n.Close()
	var hangSeen = make(chan struct{}, 1)
	n.Conn.SetHook(func(d simnet.Datagram) error {
		m, err := benc.DecodeDict(d.B)
		if err != nil || m["y"] != "q" {
			return nil
		}
		nd := byAddr[d.To.String()]
		t, _ := benc.Str(m, "t")
		q, _ := benc.Str(m, "q")
		a, _ := benc.Sub(m, "a")
		kind := "long"
		switch q {
		case "get_peers":
			if sc, _ := benc.Int(a, "scrape"); (sc == 1) != scrape {
				mu.Lock()
				scrapeWrong++
				mu.Unlock()
			}
			if h, _ := benc.Str(a, "info_hash"); h != string(ih[:]) {
				mu.Lock()
				scrapeWrong += 1000
				mu.Unlock()
			}
			if shortFor(d.To.String()) {
				kind = "short"
			} else {
				mu.Lock()
				pending = append(pending, c16pending{nd, t})
				mu.Unlock()
			}
		case "announce_peer":
			mu.Lock()
			announces = append(announces, annSeen{d.To.String(), a})
			mu.Unlock()
			switch {
			case nd == nil || nd.annKind == "silent":
				kind = "short"
			case nd.annKind == "hang":
				select {
				case hangSeen <- struct{}{}:
				default:
				}
			case nd.annKind == "writefail":
				// the socket refuses the datagram, every time it is offered: the announce still ends
				gmu.Lock()
				gdest[curGoroutine()] = "short"
				gmu.Unlock()
				mu.Lock()
				writeFails++
				mu.Unlock()
				return &net.OpError{Op: "write", Net: "udp", Addr: d.To, Err: os.NewSyscallError("sendto", nd.errno)}
			case nd.annKind == "error":
				n.Conn.Inject(srv.ErrorMsg(t, 203, "bad token"), d.To)
			default:
				n.Conn.Inject(srv.Response(t, benc.Dict{"id": nd.id}), d.To)
			}
		default:
			kind = "short"
		}
		gmu.Lock()
		gdest[curGoroutine()] = kind
		gmu.Unlock()
		return nil
	})
	var opts []dht.AnnounceOpt
	if scrape {
		opts = append(opts, dht.Scrape())
	}
	if !announcing {
		port, implied = 0, false
	}
	a, err := n.S.Announce(ih, port, implied, opts...)
	if err != nil {
		c.Inconclusive("Announce: " + err.Error())
		return
	}
	// consumer
	type got struct {
		addr string
		id   [20]byte
	}
	var received []got
	var rmu sync.Mutex
	consumerDone := make(chan struct{})
	stopReading := make(chan struct{})
	limit := -1
	if consumer == "stops" {
		limit = r.Intn(3)
	}
	go func() {
		defer close(consumerDone)
		if consumer == "never" {
			<-stopReading
		}
		for {
			if limit == 0 {
				<-stopReading
				limit = -1
			}
			pv, ok := <-a.Peers
			if !ok {
				return
			}
			rmu.Lock()
			received = append(received, got{(&net.UDPAddr{IP: pv.NodeInfo.Addr.IP, Port: pv.NodeInfo.Addr.Port}).String(), pv.NodeInfo.ID})
			rmu.Unlock()
			if limit > 0 {
				limit--
			}
		}
	}()
	// controller
	replied := map[string]bool{} // node addr -> get_peers r reply injected before any stop
	var repliedR []got          // r-type replies injected (should be delivered)
	stopped := false
	steps := 0
	idle := 0
	watchdog := time.Now().Add(40 * time.Second)
	finished := false
	closedByHang := false
	for !finished {
		select {
		case <-a.Finished():
			finished = true
			continue
		case <-hangSeen:
			// the only way past an announce_peer that is never answered
			a.Close()
			stopped, closedByHang = true, true
			continue
		default:
		}
		if !stopped && steps == stopAt {
			if stopKind == "close" {
				a.Close()
			} else {
				a.StopTraversing()
			}
			stopped = true
			continue
		}
		mu.Lock()
		var p *c16pending
		if len(pending) > 0 && !stopped {
			k := r.Intn(len(pending))
			pp := pending[k]
			pending = append(pending[:k], pending[k+1:]...)
			p = &pp
		}
		mu.Unlock()
		if p == nil {
			idle++
			// Nothing to answer: either the traversal is working (silent peers timing out), or it is
			// waiting for a consumer that does not read, or it is done.
			if idle > 2000 && !stopped && consumer != "always" {
				// the consumer is not reading; the owner gives up
				a.Close()
				stopped = true
				idle = 0
				continue
			}
			if time.Now().After(watchdog) {
				break
			}
			time.Sleep(50 * time.Microsecond)
			continue
		}
		idle = 0
		steps++
		nd := p.node
		ret := benc.Dict{"id": nd.id}
		var nl, nl6 []byte
		for _, j := range nd.lists {
			o := nodes[j]
			if o.addr.IP.To4() != nil {
				nl = append(nl, srv.CompactNode(o.id, o.addr.IP.To4(), o.addr.Port)...)
			} else {
				nl6 = append(nl6, srv.CompactNode(o.id, o.addr.IP, o.addr.Port)...)
			}
		}
		if len(nl) > 0 {
			ret["nodes"] = string(nl)
		}
		if len(nl6) > 0 {
			ret["nodes6"] = string(nl6)
		}
		switch nd.kind {
		case "token", "emptytoken":
			ret["token"] = nd.token
		case "values":
			ret["token"] = nd.token
			ret["values"] = benc.List{string([]byte{9, 9, 9, 9, 0, 80}), string([]byte{8, 8, 8, 8, 0, 81})}
		case "error":
			n.Conn.Inject(srv.ErrorMsg(p.t, 201, "nope"), nd.addr)
			continue
		}
		replied[nd.addr.String()] = true
		repliedR = append(repliedR, got{nd.addr.String(), nd.id})
		n.Conn.Inject(srv.Response(p.t, ret), nd.addr)
	}
	c.Eval(1)
	c.Count("announce runs", 1)
	c.Distinct(gen.Hash64("c16", N, opt, consumer, stopKind, stopAt, hang, steps))
	if !finished {
		gs := census.Module(census.ServeLoop)
		c.Violation("announce-does-not-finish:"+map[bool]string{true: "after-close", false: "without-close"}[stopped],
			fmt.Sprintf("%s: Finished() has not fired 40s after the last event (stopped=%v closedBecauseOfHangingAnnounce=%v, %d replies injected)\n%s", desc, stopped, closedByHang, steps, truncateS(census.Dump(gs), 5000)), nil)
		close(stopReading)
		return
	}
	c.Count("announces that finished", 1)
	mu.Lock()
	c.Count("announce_peer writes refused by the socket (persistent errno)", writeFails)
	mu.Unlock()
	mu.Lock()
	annAtFinish := len(announces)
	mu.Unlock()
	close(stopReading)
	select {
	case <-consumerDone:
	case <-time.After(20 * time.Second):
		c.Violation("peers-channel-not-closed", desc+": Finished() fired but Peers is still open", nil)
		return
	}
	n.Quiesce(nil)
	mu.Lock()
	anns := append([]annSeen(nil), announces...)
	mu.Unlock()
	mu.Lock()
	sw := scrapeWrong
	mu.Unlock()
	if sw > 0 {
		c.Violation("get_peers-query-with-wrong-scrape-flag-or-infohash", fmt.Sprintf("%s: %d get_peers queries (x1000 = wrong info_hash) did not match the announce options", desc, sw), nil)
	}
	if len(anns) > annAtFinish {
		c.Violation("finished-signalled-before-the-announces-were-sent", fmt.Sprintf("%s: %d announce_peer queries had reached the socket when Finished() fired, %d more followed", desc, annAtFinish, len(anns)-annAtFinish), nil)
	}
	// T: responders with a string token, replied to before any stop.
	type member struct {
		nd *c16node
	}
	var T []*c16node
	for _, nd := range nodes {
		if replied[nd.addr.String()] && (nd.kind == "token" || nd.kind == "emptytoken" || nd.kind == "values") && nd.addr.Port != 0 && !(nd.addr.IP.To4() != nil && nd.addr.IP.To4()[0] == 0) {
			T = append(T, nd)
		}
	}
	sort.SliceStable(T, func(i, j int) bool { return ref.CmpDist(T[i].id, T[j].id, ih) < 0 })
	seenDest := map[string]int{}
	for _, an := range anns {
		c.Count("announce_peer queries checked", 1)
		seenDest[an.to]++
		nd := byAddr[an.to]
		rp := map[string]any{"run": desc, "to": an.to}
		if !announcing {
			c.Violation("announce_peer-sent-although-announcing-is-off", desc, rp)
			continue
		}
		inT := false
		for _, m := range T {
			if m == nd {
				inT = true
			}
		}
		if nd == nil || !inT {
			why := "never answered get_peers in this traversal"
			if nd != nil && replied[an.to] {
				why = "answered get_peers without a token (kind " + nd.kind + ")"
			}
			c.Violation("announce_peer-to-node-outside-the-closest-set", fmt.Sprintf("%s: announce_peer to %s, which %s", desc, an.to, why), rp)
			continue
		}
		closer := 0
		for _, m := range T {
			if ref.CmpDist(m.id, nd.id, ih) < 0 {
				closer++
			}
		}
		// After a Close/StopTraversing the replies injected last may have lost the race against the
		// cancellation, so the harness's T can be larger than the real set; the rank is only judged
		// on traversals that ran to their stall.
		if closer >= 8 && !stopped {
			c.Violation("announce_peer-to-node-outside-the-closest-set", fmt.Sprintf("%s: %s has %d token-bearing responders strictly closer to the infohash", desc, an.to, closer), rp)
		}
		tok, _ := benc.Str(an.args, "token")
		if tok != nd.token {
			owner := "nobody"
			for _, o := range nodes {
				if o.token == tok && o != nd {
					owner = o.addr.String()
				}
			}
			c.Violation("announce_peer-carries-another-nodes-token", fmt.Sprintf("%s: to %s with token %q (issued by %s), its own token is %q", desc, an.to, tok, owner, nd.token), rp)
		}
		if h, _ := benc.Str(an.args, "info_hash"); h != string(ih[:]) {
			c.Violation("announce_peer-wrong-info_hash", desc, rp)
		}
		gp, _ := benc.Int(an.args, "port")
		gi, _ := benc.Int(an.args, "implied_port")
		if int(gp) != port || (gi == 1) != implied {
			c.Violation("announce_peer-wrong-port-arguments", fmt.Sprintf("%s: sent port=%d implied_port=%d", desc, gp, gi), rp)
		}
	}
	for d, k := range seenDest {
		if k > 1 {
			c.Violation("announce_peer-sent-twice-to-one-node", fmt.Sprintf("%s: %s got %d", desc, d, k), nil)
		}
	}
	if announcing && !stopped {
		// Ran to its stall and through the announce phase undisturbed: every forced member got one.
		for i, m := range T {
			atOrCloser := 0
			for j, o := range T {
				if j != i && ref.CmpDist(o.id, m.id, ih) <= 0 {
					atOrCloser++
				}
			}
			if atOrCloser < 8 && seenDest[m.addr.String()] == 0 {
				c.Violation("closest-set-member-not-announced-to", fmt.Sprintf("%s: %s answered with token %q, at most %d token-bearing responders are as close, yet no announce_peer went to it", desc, m.addr, m.token, atOrCloser), nil)
			}
		}
		c.Count("undisturbed announces with the full closest set checked", 1)
	}
	// Delivery on Peers.
	rmu.Lock()
	recv := append([]got(nil), received...)
	rmu.Unlock()
	cnt := map[got]int{}
	for _, g := range recv {
		cnt[g]++
	}
	inj := map[got]int{}
	for _, g := range repliedR {
		inj[g]++
	}
	for g, k := range cnt {
		if k > inj[g] {
			c.Violation("response-delivered-more-often-than-received", fmt.Sprintf("%s: %x@%s delivered %d times, %d responses injected", desc, g.id[:4], g.addr, k, inj[g]), nil)
		}
	}
	if consumer == "always" && !stopped {
		for g, k := range inj {
			if cnt[g] != k {
				c.Violation("response-not-delivered-to-reading-consumer", fmt.Sprintf("%s: %x@%s: %d responses injected, %d delivered", desc, g.id[:4], g.addr, k, cnt[g]), nil)
			}
		}
		c.Count("runs with a reading consumer and full delivery checked", 1)
	}
	if c.WantSample() && run%31 == 0 {
		c.Sample(map[string]any{"run": desc, "responders_with_token": len(T), "announce_peer_sent": len(anns), "responses_delivered": len(recv)})
	}
}
