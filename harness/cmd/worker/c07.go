package main

import (
	"context"
	"encoding/binary"
	"errors"
	"fmt"
	"net"
	"sync"
	"time"

	"github.com/anacrolix/dht/v2"
	"github.com/anacrolix/dht/v2/krpc"

	"verifharness/benc"
	"verifharness/census"
	"verifharness/evid"
	"verifharness/gen"
	"verifharness/srv"
)

func init() { register("C07", c07) }

type c07query struct {
	srv    int
	dest   *net.UDPAddr
	method string
	tag    [20]byte // unique, sent as a.target, identifies the query in the capture log
	t      string
	cancel context.CancelFunc
	done   chan dht.QueryResult
	answer bool
	// answered and cancelled at the same moment: either outcome is fine for this query, but the
	// reply must not surface anywhere else later
	alsoCancel bool
	marker     [20]byte // r.id of the one correct reply
	misses map[[20]byte]string
	result *dht.QueryResult
}

// C07 — a query completes only with the reply that matches it.
func c07(c *evid.Ctx) {
	r := c.R.Fork("c07")
	rounds := c.Scale(1600, 40000)
	long := func() time.Duration { return time.Hour }
	nodes := make([]*srv.Node, 3)
	for i := range nodes {
		n, err := srv.New(dht.ServerConfig{NoSecurity: true, QueryResendDelay: long})
		if err != nil {
			c.Inconclusive(err.Error())
			return
		}
		nodes[i] = n
		defer n.Close()
	}
	for round := 0; round < rounds && c.NumViolations() < 20; round++ {
		for _, n := range nodes {
			n.Conn.ResetCapture()
		}
		M := gen.Pick(r, []int{1, 2, 3, 8, 16, 32})
		ns := gen.Pick(r, []int{1, 1, 2, 3})
		// destination pool with collisions
		base := r.PublicIPv4()
		var pool []*net.UDPAddr
		for i := 0; i < 1+M/2; i++ {
			switch r.Intn(5) {
			case 0:
				pool = append(pool, &net.UDPAddr{IP: base, Port: 1000 + i}) // same IP, different ports
			case 1:
				pool = append(pool, &net.UDPAddr{IP: r.PublicIPv4(), Port: 7777}) // same port, different IPs
			case 2:
				pool = append(pool, &net.UDPAddr{IP: r.PublicIPv6(), Port: 7777})
			case 3:
				pool = append(pool, &net.UDPAddr{IP: gen.V4Mapped(r.PublicIPv4()), Port: r.Port()})
			default:
				pool = append(pool, &net.UDPAddr{IP: r.PublicIPv4(), Port: r.Port()})
			}
		}
		qs := make([]*c07query, M)
		var wg sync.WaitGroup
		start := make(chan struct{})
		for i := range qs {
			q := &c07query{srv: r.Intn(ns), dest: gen.Pick(r, pool), method: gen.Pick(r, []string{"ping", "find_node", "get_peers", "get"}),
				tag: r.ID(), done: make(chan dht.QueryResult, 1), answer: r.Intn(5) != 0, marker: r.ID(), misses: map[[20]byte]string{}}
			q.alsoCancel = q.answer && r.Intn(8) == 0
			qs[i] = q
			ctx, cancel := context.WithCancel(context.Background())
			q.cancel = cancel
			wg.Add(1)
			go func() {
				wg.Done()
				<-start // all at once: registration of concurrent queries is part of what is tested
				q.done <- nodes[q.srv].S.Query(ctx, dht.NewAddr(q.dest), q.method, dht.QueryInput{MsgArgs: krpc.MsgArgs{Target: q.tag, InfoHash: q.tag}})
			}()
		}
		wg.Wait()
		close(start)
		// Learn every query's t from the capture logs.
		byTag := map[[20]byte]*c07query{}
		for _, q := range qs {
			byTag[q.tag] = q
		}
		deadline := time.Now().Add(30 * time.Second)
		found := 0
		for found < M {
			found = 0
			for si := 0; si < ns; si++ {
				for _, d := range nodes[si].Conn.Captured(0) {
					m, err := benc.DecodeDict(d.B)
					if err != nil || m["y"] != "q" {
						continue
					}
					a, _ := benc.Sub(m, "a")
					tg, _ := benc.Str(a, "target")
					var tag [20]byte
					copy(tag[:], tg)
					if q := byTag[tag]; q != nil && d.To.String() == q.dest.String() {
						q.t, _ = benc.Str(m, "t")
						found++
					}
				}
			}
			if found < M {
				// A query that comes back before anything was injected for it was completed by
				// something that cannot be its reply.
				early := false
				for _, q := range qs {
					if q.t != "" {
						continue
					}
					select {
					case res := <-q.done:
						early = true
						var got [20]byte
						if res.Reply.R != nil {
							got = res.Reply.R.ID
						}
						if res.Err == nil {
							c.Violation("query-completed-by-non-matching-datagram:before-any-reply-to-it-existed", fmt.Sprintf("query to %v returned y=%q marker %x before a reply to it had been injected (and before it reached the socket)", q.dest, res.Reply.Y, got[:4]), nil)
						} else {
							c.Inconclusive(fmt.Sprintf("query to %v failed before it was sent: %v", q.dest, res.Err))
						}
					default:
					}
				}
				if early {
					for _, q := range qs {
						q.cancel()
					}
					return
				}
				if time.Now().After(deadline) {
					c.Inconclusive(fmt.Sprintf("round %d: only %d of %d queries reached the socket", round, found, M))
					return
				}
				time.Sleep(50 * time.Microsecond)
			}
		}
		c.Count("rounds", 1)
		c.Count("concurrent queries started", M)
		// All simultaneously outstanding queries must have distinct transaction IDs.
		seenT := map[string]*c07query{}
		for _, q := range qs {
			if o := seenT[q.t]; o != nil {
				c.Violation("outstanding-queries-share-a-transaction-id", fmt.Sprintf("t=%q used by the query to %v (server %d) and the query to %v (server %d) at the same time", q.t, q.dest, q.srv, o.dest, o.srv), nil)
			}
			seenT[q.t] = q
		}
		// pending t per (server, dest)
		pendingAt := func(si int, dest string, t string) bool {
			for _, q := range qs {
				if q.srv == si && q.dest.String() == dest && q.t == t {
					return true
				}
			}
			return false
		}
		order := r.Intn(len(qs) + 1)
		_ = order
		idx := make([]int, len(qs))
		for i := range idx {
			idx[i] = i
		}
		gen.Shuffle(r, idx)
		var replay [][]byte // correct replies already used in this round, with their source
		var replayFrom []*net.UDPAddr
		var replaySrv []int
		for _, qi := range idx {
			q := qs[qi]
			conn := nodes[q.srv].Conn
			nm := r.Intn(14)
			for k := 0; k < nm; k++ {
				mk := r.ID()
				from := q.dest
				t := q.t
				y := gen.Pick(r, []string{"r", "r", "r", "e", "x"})
				var kind string
				switch r.Intn(10) {
				case 0:
					from, kind = &net.UDPAddr{IP: q.dest.IP, Port: q.dest.Port%65535 + 1}, "right t, same IP, other port"
				case 1:
					ip := append(net.IP(nil), q.dest.IP...)
					ip[len(ip)-1] ^= 1
					from, kind = &net.UDPAddr{IP: ip, Port: q.dest.Port}, "right t, neighbouring IP, same port"
				case 2:
					o := gen.Pick(r, qs)
					if o.dest.String() == q.dest.String() {
						continue
					}
					from, kind = o.dest, "right t, from another pending query's destination"
				case 3:
					t, kind = q.t[:len(q.t)-1], "prefix of t, right address"
				case 4:
					t, kind = q.t+string(r.Bytes(1)), "extension of t, right address"
				case 5:
					v, n := binary.Uvarint([]byte(q.t))
					if n <= 0 {
						continue
					}
					buf := make([]byte, binary.MaxVarintLen64)
					if r.Bool() {
						v++
					} else {
						v--
					}
					t, kind = string(buf[:binary.PutUvarint(buf, v)]), "adjacent transaction id, right address"
				case 6:
					t, kind = "", "empty t, right address"
				case 7:
					t, kind = gen.Pick(r, qs).t, "another query's t, right address"
				case 8:
					y, kind = "q", "a query carrying the same t from the right address"
				case 9:
					if len(replay) == 0 {
						continue
					}
					j := r.Intn(len(replay))
					if replaySrv[j] != q.srv {
						continue
					}
					c.Count("near misses injected: replay of a reply that already completed a query", 1)
					conn.Inject(replay[j], replayFrom[j])
					continue
				}
				if y != "q" && pendingAt(q.srv, from.String(), t) {
					continue // that would be a genuine match for some pending query
				}
				var msg []byte
				switch y {
				case "r":
					msg = srv.Response(t, benc.Dict{"id": mk})
				case "e":
					msg = benc.Encode(benc.Dict{"y": "e", "t": t, "e": benc.List{int64(201), string(mk[:])}})
				case "x":
					msg = benc.Encode(benc.Dict{"y": "x", "t": t, "r": benc.Dict{"id": mk}})
				case "q":
					msg = benc.Encode(benc.Dict{"y": "q", "q": "ping", "t": t, "a": benc.Dict{"id": mk}, "r": benc.Dict{"id": mk}})
				}
				for _, o := range qs {
					o.misses[mk] = kind + " (y=" + y + ")"
				}
				c.Count("near misses injected: "+kind, 1)
				c.WAL("round %d near miss for query to %v t=%q: %s y=%s from %v t=%q", round, q.dest, q.t, kind, y, from, t)
				conn.Inject(msg, from)
			}
			if q.answer {
				msg := srv.Response(q.t, benc.Dict{"id": q.marker})
				conn.Inject(msg, q.dest)
				if q.alsoCancel {
					q.cancel()
					c.Count("queries cancelled at the moment their reply arrives", 1)
				}
				replay, replayFrom, replaySrv = append(replay, msg), append(replayFrom, q.dest), append(replaySrv, q.srv)
				if r.Bool() {
					conn.Inject(msg, q.dest) // duplicate
					c.Count("duplicates of the correct reply injected", 1)
				}
			}
		}
		if err := srv.QuiesceAll(nodes[:ns], srv.PendingQueryOK, 60*time.Second); err != nil {
			// Something other than an open query is still around a minute after the last datagram.
			stuck := census.Stuck(func(g census.G) bool { return census.ServeLoop(g) || srv.PendingQueryOK(g) }, time.Second)
			if len(stuck) > 0 {
				c.Violation("reply-handling-left-a-goroutine-blocked", fmt.Sprintf("after every datagram of round %d was handled, %d library goroutines stay parked (a reply was handed to a query that no longer takes it):\n%s", round, len(stuck), truncateS(census.Dump(stuck), 4000)), nil)
				return
			}
			c.Inconclusive(err.Error())
			return
		}
		// Verdicts.
		markers := map[[20]byte]int{}
		for _, q := range qs {
			c.Eval(1)
			c.Distinct(gen.Hash64(M, ns, q.method, q.answer, len(q.t), q.dest.IP.To4() != nil))
			if q.answer {
				var res dht.QueryResult
				select {
				case res = <-q.done:
				case <-time.After(30 * time.Second):
					c.Violation("matching-reply-did-not-complete-the-query", fmt.Sprintf("query to %v t=%q was sent its reply from that address with that t and has not returned", q.dest, q.t), nil)
					q.cancel()
					<-q.done
					continue
				}
				c.Count("queries completed by their own reply", 1)
				q.result = &res
				switch {
				case q.alsoCancel && errors.Is(res.Err, context.Canceled):
					// lost the race against its own cancellation: fine
				case res.Err != nil:
					c.Violation("matching-reply-did-not-complete-the-query", fmt.Sprintf("query to %v t=%q returned %v", q.dest, q.t, res.Err), nil)
				case res.Reply.R == nil || res.Reply.R.ID != q.marker:
					var got [20]byte
					if res.Reply.R != nil {
						got = res.Reply.R.ID
					}
					if res.Reply.E != nil {
						copy(got[:], res.Reply.E.Msg)
					}
					kind := q.misses[got]
					if kind == "" {
						kind = "a datagram meant for another query"
						for _, o := range qs {
							if o.marker == got {
								kind = fmt.Sprintf("the reply to the query to %v t=%q", o.dest, o.t)
							}
						}
					}
					c.Violation("query-completed-by-non-matching-datagram:"+kind, fmt.Sprintf("query to %v t=%q (server %d) returned a reply with marker %x: %s", q.dest, q.t, q.srv, got[:4], kind), nil)
				default:
					markers[q.marker]++
					if res.Writes != 1 {
						c.Violation("query-wrote-more-than-once", fmt.Sprintf("Writes=%d", res.Writes), nil)
					}
				}
			} else {
				select {
				case res := <-q.done:
					var got [20]byte
					if res.Reply.R != nil {
						got = res.Reply.R.ID
					}
					c.Violation("query-completed-by-non-matching-datagram:unanswered-query", fmt.Sprintf("query to %v t=%q was never sent a matching reply, yet returned err=%v y=%q marker %x (%s)",
						q.dest, q.t, res.Err, res.Reply.Y, got[:4], q.misses[got]), nil)
					continue
				default:
				}
				q.cancel()
				select {
				case res := <-q.done:
					c.Count("unanswered queries that stayed open until cancelled", 1)
					if !errors.Is(res.Err, context.Canceled) {
						c.Violation("cancelled-query-returns-something-else", fmt.Sprintf("query to %v: err=%v reply.Y=%q", q.dest, res.Err, res.Reply.Y), nil)
					}
				case <-time.After(30 * time.Second):
					c.Violation("cancelled-query-does-not-return", fmt.Sprintf("query to %v", q.dest), nil)
				}
			}
		}
		for m, n := range markers {
			if n > 1 {
				c.Violation("one-reply-completed-two-queries", fmt.Sprintf("marker %x returned %d times", m[:4], n), nil)
			}
		}
		if err := srv.QuiesceAll(nodes[:ns], nil, 60*time.Second); err != nil {
			c.Inconclusive(err.Error())
			return
		}
		for si := 0; si < ns; si++ {
			if o := nodes[si].S.Stats().OutstandingTransactions; o != 0 {
				c.Violation("transactions-left-pending", fmt.Sprintf("server %d: %d outstanding after every query returned", si, o), nil)
			}
		}
		if c.WantSample() && round%23 == 0 {
			c.Sample(map[string]any{"round": round, "concurrent_queries": M, "servers": ns, "example_query": map[string]any{"dest": qs[0].dest.String(), "t": fmt.Sprintf("%q", qs[0].t), "method": qs[0].method, "answered": qs[0].answer}})
		}
	}
	c.Floor("queries completed by their own reply", 1)
	c.Floor("unanswered queries that stayed open until cancelled", 1)
}
