package main

import (
	"bytes"
	"fmt"
	"math/big"
	"net/netip"
	"sort"

	"github.com/anacrolix/dht/v2"
	"github.com/anacrolix/dht/v2/containers"
	"github.com/anacrolix/dht/v2/int160"
	k_nearest_nodes "github.com/anacrolix/dht/v2/k-nearest-nodes"
	"github.com/anacrolix/dht/v2/krpc"
	"github.com/anacrolix/dht/v2/types"
	"github.com/anacrolix/generics"

	"verifharness/evid"
	"verifharness/gen"
	"verifharness/ref"
)

func init() { register("C18", c18) }

// C18 — XOR metric, bucket index and closeness orders obey their laws. Law checkers over
// structured generators; every law is counted separately.
func c18(c *evid.Ctx) {
	c18metric(c)
	c18bucket(c)
	c18closer(c)
	c18sortedSet(c)
	c18knearest(c)
}

// Structured ID relative to a base: shared prefix of every length, single-bit differences,
// extremes, equal.
func c18id(r *gen.Rand, base [20]byte) [20]byte {
	switch r.Intn(8) {
	case 0:
		return base
	case 1:
		return [20]byte{}
	case 2:
		var m [20]byte
		for i := range m {
			m[i] = 0xff
		}
		return m
	case 3:
		id := base
		b := r.Intn(160)
		gen.SetBit(&id, b, !gen.GetBit(id, b))
		return id
	case 4:
		return r.ID()
	default:
		return r.IDWithPrefix(base, r.Intn(161))
	}
}

func bigOf(id [20]byte) *big.Int { return new(big.Int).SetBytes(id[:]) }

func c18metric(c *evid.Ctx) {
	r := c.R.Fork("metric")
	n := c.Scale(400000, 60000000)
	for i := 0; i < n; i++ {
		a := c18id(r, r.ID())
		b := c18id(r, a)
		ia, ib := int160.FromByteArray(a), int160.FromByteArray(b)
		c.Eval(1)
		c.Distinct(gen.Hash64("metric", ref.SharedPrefix(a, b), a == b, a == [20]byte{}, int(a[19]&3)))
		dab, dba := ia.Distance(ib), ib.Distance(ia)
		want := ref.Xor(a, b)
		c.Count("law:distance symmetric and equals independent xor", 1)
		if dab != dba || dab.AsByteArray() != want || int160.Distance(ia, ib) != dab {
			c.Violation("distance-not-symmetric-or-wrong", fmt.Sprintf("a=%x b=%x d(a,b)=%v d(b,a)=%v want %x", a, b, dab, dba, want), nil)
		}
		c.Count("law:distance zero iff equal", 1)
		if dab.IsZero() != (a == b) {
			c.Violation("distance-zero-iff-equal", fmt.Sprintf("a=%x b=%x d=%v", a, b, dab), nil)
		}
		c.Count("law:Cmp equals unsigned big-endian compare", 1)
		got := ia.Cmp(ib)
		if got != bytes.Compare(a[:], b[:]) || got != bigOf(a).Cmp(bigOf(b)) {
			c.Violation("cmp-not-unsigned-bigendian", fmt.Sprintf("a=%x b=%x Cmp=%d bytes.Compare=%d", a, b, got, bytes.Compare(a[:], b[:])), nil)
		}
		c.Count("law:BitLen equals big.Int BitLen", 1)
		if dab.BitLen() != bigOf(want).BitLen() || dab.BitLen() != 160-minInt(ref.SharedPrefix(a, b), 160) {
			c.Violation("bitlen-wrong", fmt.Sprintf("x=%x BitLen=%d want %d", want, dab.BitLen(), bigOf(want).BitLen()), nil)
		}
		bit := r.Intn(160)
		c.Count("law:GetBit/SetBit agree with big.Int bit numbering", 1)
		if ia.GetBit(bit) != (bigOf(a).Bit(159-bit) == 1) {
			c.Violation("getbit-wrong", fmt.Sprintf("a=%x bit %d: %v", a, bit, ia.GetBit(bit)), nil)
		}
		v := r.Bool()
		sa := ia
		sa.SetBit(bit, v)
		wantSet := a
		gen.SetBit(&wantSet, bit, v)
		if sa.AsByteArray() != wantSet {
			c.Violation("setbit-wrong", fmt.Sprintf("a=%x SetBit(%d,%v) = %v want %x", a, bit, v, sa, wantSet), nil)
		}
		// Ordering by distance to a target is what lookups use: compare with the reference.
		t := c18id(r, a)
		it := int160.FromByteArray(t)
		c.Count("law:distance order equals reference order", 1)
		if sgn(ia.Distance(it).Cmp(ib.Distance(it))) != sgn(ref.CmpDist(a, b, t)) {
			c.Violation("distance-order-differs-from-reference", fmt.Sprintf("a=%x b=%x t=%x", a, b, t), nil)
		}
	}
}

func minInt(a, b int) int {
	if a < b {
		return a
	}
	return b
}

func sgn(x int) int {
	switch {
	case x < 0:
		return -1
	case x > 0:
		return 1
	}
	return 0
}

func c18bucket(c *evid.Ctx) {
	r := c.R.Fork("bucket")
	n := c.Scale(200000, 5000000)
	for i := 0; i < n; i++ {
		root := c18id(r, r.ID())
		id := c18id(r, root)
		c.Eval(1)
		want := ref.SharedPrefix(root, id)
		c.Distinct(gen.Hash64("bucket", want, root == [20]byte{}))
		c.Count("law:bucket index equals shared prefix length; panics only for id == root", 1)
		got, panicked := func() (g int, p bool) {
			defer func() {
				if recover() != nil {
					p = true
				}
			}()
			return dht.VerifBucketIndex(root, id), false
		}()
		if panicked != (id == root) {
			c.Violation("bucket-index-panic-mismatch", fmt.Sprintf("root=%x id=%x panicked=%v", root, id, panicked), nil)
		} else if !panicked && got != want {
			c.Violation("bucket-index-wrong", fmt.Sprintf("root=%x id=%x index=%d want %d", root, id, got, want), nil)
		}
	}
	draws := c.Scale(100*8, 2000*32) // per bucket index, total over batches: 100 / 2000
	if draws < 10 {
		draws = 10
	}
	for b := 0; b < 160; b++ {
		for j := 0; j < draws; j++ {
			root := c18id(r, r.ID())
			id := dht.VerifRandomIdInBucket(root, b)
			c.Eval(1)
			c.Count("law:random id for bucket i lands in bucket i", 1)
			c.Distinct(gen.Hash64("randbucket", b, j%4))
			if ref.SharedPrefix(root, id) != b {
				c.Violation("random-id-in-wrong-bucket", fmt.Sprintf("root=%x bucket=%d got id=%x in bucket %d", root, b, id, ref.SharedPrefix(root, id)), nil)
			}
		}
	}
}

// ---- closer-than ----

type amiGen struct {
	r     *gen.Rand
	t     [20]byte
	ids   [][20]byte
	addrs []netip.Addr
	ports []uint16
}

func newAmiGen(r *gen.Rand) *amiGen {
	g := &amiGen{r: r, t: c18id(r, r.ID())}
	// Small pools so that equal IDs, equal addresses and equal ports collide often.
	for i := 0; i < 4; i++ {
		g.ids = append(g.ids, c18id(r, g.t))
	}
	v4 := r.PublicIPv4()
	a4, _ := netip.AddrFromSlice(v4)
	a6, _ := netip.AddrFromSlice(r.PublicIPv6())
	am, _ := netip.AddrFromSlice(gen.V4Mapped(v4))
	a4b, _ := netip.AddrFromSlice(r.PublicIPv4())
	g.addrs = []netip.Addr{a4, a6, am, a4b}
	g.ports = []uint16{1, uint16(r.Port()), 65535}
	return g
}

func (g *amiGen) next() types.AddrMaybeId {
	a := types.AddrMaybeId{Addr: krpc.NodeAddrPort{AddrPort: netip.AddrPortFrom(gen.Pick(g.r, g.addrs), gen.Pick(g.r, g.ports))}}
	if g.r.Intn(4) != 0 {
		a.Id = generics.Some(int160.FromByteArray(gen.Pick(g.r, g.ids)))
	}
	return a
}

// Independent comparator: known ID first, then XOR distance, then (address family, bytes), then
// port. Returns -1 if l is closer.
func refAmiCmp(l, r types.AddrMaybeId, t [20]byte) int {
	if l.Id.Ok != r.Id.Ok {
		if l.Id.Ok {
			return -1
		}
		return 1
	}
	if l.Id.Ok {
		if d := ref.CmpDist(l.Id.Value.AsByteArray(), r.Id.Value.AsByteArray(), t); d != 0 {
			return d
		}
	}
	la, ra := l.Addr.Addr().AsSlice(), r.Addr.Addr().AsSlice()
	if len(la) != len(ra) {
		return sgn(len(la) - len(ra))
	}
	if d := bytes.Compare(la, ra); d != 0 {
		return d
	}
	return sgn(int(l.Addr.Port()) - int(r.Addr.Port()))
}

func amiSame(a, b types.AddrMaybeId) bool {
	return a.Id.Ok == b.Id.Ok && (!a.Id.Ok || a.Id.Value == b.Id.Value) && a.Addr == b.Addr
}

func c18closer(c *evid.Ctx) {
	r := c.R.Fork("closer")
	n := c.Scale(300000, 40000000)
	var g *amiGen
	for i := 0; i < n; i++ {
		if i%64 == 0 {
			g = newAmiGen(r)
		}
		a, b, d := g.next(), g.next(), g.next()
		t := int160.FromByteArray(g.t)
		c.Eval(1)
		c.Distinct(gen.Hash64("closer", a.Id.Ok, b.Id.Ok, d.Id.Ok, amiSame(a, b), amiSame(b, d), refAmiCmp(a, b, g.t), refAmiCmp(b, d, g.t)))
		ab, ba := a.CloserThan(b, t), b.CloserThan(a, t)
		bd, ad := b.CloserThan(d, t), a.CloserThan(d, t)
		desc := func() string { return fmt.Sprintf("target=%x a=%v b=%v c=%v", g.t, a, b, d) }
		c.Count("law:closer-than irreflexive", 1)
		if a.CloserThan(a, t) {
			c.Violation("closer-than-reflexive", desc(), nil)
		}
		c.Count("law:closer-than asymmetric", 1)
		if ab && ba {
			c.Violation("closer-than-not-asymmetric", desc(), nil)
		}
		c.Count("law:closer-than total on distinct elements", 1)
		if !amiSame(a, b) && !ab && !ba {
			c.Violation("closer-than-not-total", desc(), nil)
		}
		if amiSame(a, b) && (ab || ba) {
			c.Violation("closer-than-orders-equal-elements", desc(), nil)
		}
		c.Count("law:closer-than transitive", 1)
		if ab && bd && !ad {
			c.Violation("closer-than-not-transitive", desc(), nil)
		}
		c.Count("law:known IDs rank before unknown", 1)
		if a.Id.Ok && !b.Id.Ok && !ab {
			c.Violation("id-less-not-ranked-last", desc(), nil)
		}
		c.Count("law:closer-than consistent with XOR distance", 1)
		if a.Id.Ok && b.Id.Ok {
			if dd := ref.CmpDist(a.Id.Value.AsByteArray(), b.Id.Value.AsByteArray(), g.t); dd != 0 && ab != (dd < 0) {
				c.Violation("closer-than-disagrees-with-distance", desc(), nil)
			}
		}
		c.Count("law:closer-than equals reference comparator", 1)
		if ab != (refAmiCmp(a, b, g.t) < 0) {
			c.Violation("closer-than-differs-from-reference", desc(), nil)
		}
	}
}

func c18sortedSet(c *evid.Ctx) {
	r := c.R.Fork("sortedset")
	n := c.Scale(4000, 500000)
	for i := 0; i < n; i++ {
		g := newAmiGen(r)
		set := containers.NewImmutableAddrMaybeIdsByDistance(int160.FromByteArray(g.t))
		var model []types.AddrMaybeId
		ops := r.Range(1, 40)
		var trace []string
		for j := 0; j < ops; j++ {
			x := g.next()
			if r.Intn(3) == 0 && len(model) > 0 {
				// delete (sometimes something absent)
				if r.Bool() {
					x = gen.Pick(r, model)
				}
				set = set.Delete(x)
				for k := range model {
					if amiSame(model[k], x) {
						model = append(model[:k], model[k+1:]...)
						break
					}
				}
				trace = append(trace, "del "+x.String())
			} else {
				set = set.Add(x)
				dup := false
				for k := range model {
					if amiSame(model[k], x) {
						dup = true
					}
				}
				if !dup {
					model = append(model, x)
				}
				trace = append(trace, "add "+x.String())
			}
			c.Eval(1)
			c.Count("law:sorted set Len and Next equal independent model", 1)
			if set.Len() != len(model) {
				c.Violation("sorted-set-len-wrong", fmt.Sprintf("target=%x Len=%d model=%d after %v", g.t, set.Len(), len(model), trace), nil)
				break
			}
			if len(model) > 0 {
				min := model[0]
				for _, m := range model[1:] {
					if refAmiCmp(m, min, g.t) < 0 {
						min = m
					}
				}
				if got := set.Next(); !amiSame(got, min) {
					c.Violation("sorted-set-next-not-minimum", fmt.Sprintf("target=%x Next=%v want %v after %v", g.t, got, min, trace), nil)
					break
				}
			}
		}
		c.Distinct(gen.Hash64("sortedset", ops, len(model)))
		if c.WantSample() && i == 0 {
			c.Sample(map[string]any{"law": "sorted set", "target": fmt.Sprintf("%x", g.t), "ops": trace})
		}
	}
}

func c18knearest(c *evid.Ctx) {
	r := c.R.Fork("knearest")
	n := c.Scale(4000, 500000)
	for i := 0; i < n; i++ {
		g := newAmiGen(r)
		// A larger ID pool here: the container is about trimming.
		for j := 0; j < r.Intn(30); j++ {
			g.ids = append(g.ids, c18id(r, g.t))
		}
		k := r.Range(1, 20)
		kn := k_nearest_nodes.New(int160.FromByteArray(g.t), k)
		type key struct {
			id   [20]byte
			addr netip.AddrPort
		}
		pushed := map[key]bool{}
		pushes := r.Range(0, 60)
		var trace []string
		for j := 0; j < pushes; j++ {
			id := gen.Pick(r, g.ids)
			ap := netip.AddrPortFrom(gen.Pick(r, g.addrs), gen.Pick(r, g.ports))
			kn = kn.Push(k_nearest_nodes.Elem{Key: krpc.NodeInfoAddrPort{ID: id, Addr: krpc.NodeAddrPort{AddrPort: ap}}, Data: j})
			pushed[key{id, ap}] = true
			trace = append(trace, fmt.Sprintf("%x@%v", id[:4], ap))
			c.Eval(1)
			c.Count("law:k-nearest retains exactly the k nearest, in order", 1)
			var all [][20]byte
			for p := range pushed {
				all = append(all, p.id)
			}
			sort.Slice(all, func(x, y int) bool { return ref.CmpDist(all[x], all[y], g.t) < 0 })
			wantN := minInt(k, len(all))
			var got []k_nearest_nodes.Elem
			kn.Range(func(e k_nearest_nodes.Elem) { got = append(got, e) })
			bad := ""
			if len(got) != wantN || kn.Len() != wantN {
				bad = fmt.Sprintf("holds %d (Len %d), want %d", len(got), kn.Len(), wantN)
			}
			for x := 0; bad == "" && x < wantN; x++ {
				if ref.Xor(got[x].ID, g.t) != ref.Xor(all[x], g.t) {
					bad = fmt.Sprintf("element %d has distance %x, the %d-th nearest pushed has %x", x, ref.Xor(got[x].ID, g.t), x, ref.Xor(all[x], g.t))
				}
				if !pushed[key{got[x].ID, got[x].Addr.AddrPort}] {
					bad = fmt.Sprintf("element %d (%x@%v) was never pushed", x, got[x].ID, got[x].Addr)
				}
			}
			seen := map[key]bool{}
			for _, e := range got {
				if seen[key{e.ID, e.Addr.AddrPort}] {
					bad = "duplicate element"
				}
				seen[key{e.ID, e.Addr.AddrPort}] = true
			}
			if bad == "" && wantN > 0 {
				f := kn.Farthest()
				if f.ID != got[wantN-1].ID || f.Addr != got[wantN-1].Addr {
					bad = "Farthest() is not the last element"
				}
				if kn.Full() != (wantN >= k) {
					bad = "Full() wrong"
				}
			}
			if bad != "" {
				c.Violation("k-nearest-wrong", fmt.Sprintf("target=%x k=%d pushes=%v: %s", g.t, k, trace, bad), nil)
				break
			}
		}
		c.Distinct(gen.Hash64("knearest", k, pushes, len(pushed)))
		if c.WantSample() && i == 0 {
			c.Sample(map[string]any{"law": "k-nearest", "k": k, "target": fmt.Sprintf("%x", g.t), "pushes": trace})
		}
	}
}
