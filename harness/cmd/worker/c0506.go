package main

import (
	"fmt"

	"github.com/anacrolix/dht/v2"

	"verifharness/evid"
	"verifharness/gen"
	"verifharness/tbl"
)

func init() {
	register("C05", func(c *evid.Ctx) { tableWorker(c, "C05") })
	register("C06", func(c *evid.Ctx) { tableWorker(c, "C06") })
}

func tblReport(c *evid.Ctx, prop string, fs []tbl.Finding) {
	for _, f := range fs {
		if f.Prop == prop {
			c.Violation(f.Signature, f.Detail, nil)
		} else {
			c.Count("findings against "+f.Prop+" seen here (reported by that check): "+f.Signature, 1)
		}
	}
}

func tableWorker(c *evid.Ctx, prop string) {
	r := c.R.Fork("table")
	nh := c.Scale(300, 3200)
	events := 60
	if !c.Quick() {
		events = 200
	}
	for h := 0; h < nh && c.NumViolations() < 20; h++ {
		enforce := h%3 == 1
		var bl *tbl.Blocklist
		if h%2 == 0 {
			bl = tbl.NewBlocklist()
			bl.AddNet16(byte(50+r.Intn(100)), byte(r.Intn(256)))
		}
		d, err := tbl.NewDriver(r.Fork("driver"), enforce, bl, false)
		if err != nil {
			c.Inconclusive(err.Error())
			return
		}
		c.WAL("history %d enforce=%v blocklist=%v root=%x", h, enforce, bl != nil, d.Root)
		snap := d.N.S.VerifTable()
		maxBucket := 0
		for e := 0; e < events; e++ {
			ev := d.Step(snap)
			if d.Err != nil {
				c.Inconclusive(d.Err.Error())
				break
			}
			after := d.N.S.VerifTable()
			c.Eval(1)
			c.Count("events:"+ev.Kind, 1)
			c.Count("snapshots checked", 1)
			tblReport(c, prop, d.CheckWellFormed(after))
			tblReport(c, prop, d.CheckTransition(snap, after, ev))
			per := map[int]int{}
			for _, n := range after.Nodes {
				per[n.Bucket]++
				if per[n.Bucket] > maxBucket {
					maxBucket = per[n.Bucket]
				}
			}
			c.Distinct(gen.Hash64(ev.Kind, len(after.Nodes), len(after.Nodes)-len(snap.Nodes), enforce, bl != nil, maxBucket))
			snap = after
			if c.NumViolations() >= 20 {
				break
			}
		}
		if maxBucket >= 8 {
			c.Count("histories that filled a bucket", 1)
		}
		if c.WantSample() && h%29 == 0 {
			c.Sample(map[string]any{"enforce_bep42": enforce, "blocklist": bl != nil, "events": d.Trace, "final_entries": len(snap.Nodes)})
		}
		d.Close()
	}
	// Floods: a full bucket of good entries must survive any number of fresh IDs aimed at it.
	nf := c.Scale(50, 400)
	for f := 0; f < nf && c.NumViolations() < 20; f++ {
		d, err := tbl.NewDriver(r.Fork("flood"), false, nil, false)
		if err != nil {
			c.Inconclusive(err.Error())
			return
		}
		bucket := gen.Pick(r, []int{0, 1, 2, 3, 5, 17, 100, 150})
		for _, ct := range d.FloodContacts(bucket, 8) {
			d.OutboundAnswered(ct, false)
		}
		before := d.N.S.VerifTable()
		inBucket := func(s dht.VerifTableSnapshot) map[tbl.Pair]bool {
			m := map[tbl.Pair]bool{}
			for _, n := range s.Nodes {
				if n.Bucket == bucket {
					m[tbl.Pair{Addr: n.Addr, ID: n.Id}] = true
				}
			}
			return m
		}
		b0 := inBucket(before)
		if len(b0) != 8 {
			c.Violation("eligible-sender-not-admitted:flood-setup", fmt.Sprintf("8 answering contacts aimed at empty bucket %d, %d admitted; err=%v; table %+v; history %v", bucket, len(b0), d.Err, before.Nodes, d.Trace), nil)
			d.Close()
			continue
		}
		snap := before
		for i, ct := range d.FloodContacts(bucket, c.Scale(100*8, 100*32)/1) {
			if i >= 100 {
				break
			}
			var ev tbl.Event
			if i%3 == 0 {
				ev = d.OutboundAnswered(ct, false)
			} else {
				ev = d.InboundQuery(ct, false)
			}
			after := d.N.S.VerifTable()
			c.Eval(1)
			c.Count("flood events", 1)
			tblReport(c, prop, d.CheckWellFormed(after))
			tblReport(c, prop, d.CheckTransition(snap, after, ev))
			snap = after
		}
		// Multi-step: a contact in another bucket, known only from its own queries, has its maintenance
		// ping answered from its address under an ID that belongs in the full, good bucket (a restarted
		// node). Whatever the table does with either ID, it stays well-formed and the bucket intact.
		for k := 0; k < 3; k++ {
			other := bucket + 1 + r.Intn(4)
			x := d.FloodContacts(other, 1)[0]
			ev := d.InboundQuery(x, false)
			after := d.N.S.VerifTable()
			tblReport(c, prop, d.CheckWellFormed(after))
			tblReport(c, prop, d.CheckTransition(snap, after, ev))
			snap = after
			for _, e := range after.Nodes {
				if e.Id == x.ID && e.Port == x.UDP.Port && e.IP.Equal(x.UDP.IP) {
					ev = d.QuestionablePingOtherID(e, bucket)
					after = d.N.S.VerifTable()
					c.Eval(1)
					c.Count("maintenance pings answered under an ID of a full good bucket", 1)
					tblReport(c, prop, d.CheckWellFormed(after))
					tblReport(c, prop, d.CheckTransition(snap, after, ev))
					snap = after
					break
				}
			}
		}
		b1 := inBucket(snap)
		same := len(b1) == len(b0)
		for p := range b0 {
			if !b1[p] {
				same = false
			}
		}
		c.Count("floods against a full good bucket", 1)
		c.Distinct(gen.Hash64("flood", bucket, f))
		if !same && prop == "C06" {
			c.Violation("flood-changed-a-full-good-bucket", fmt.Sprintf("bucket %d before %v after %v", bucket, b0, b1), nil)
		}
		d.Close()
	}
	tableConcurrent(c, prop)
	c.Floor("histories that filled a bucket", 1)
}
