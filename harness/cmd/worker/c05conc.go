package main

import (
	"context"
	"fmt"
	"net"
	"strings"
	"sync"
	"time"

	"github.com/anacrolix/dht/v2"
	"github.com/anacrolix/dht/v2/krpc"

	"verifharness/benc"
	"verifharness/evid"
	"verifharness/gen"
	"verifharness/simnet"
	"verifharness/srv"
	"verifharness/tbl"
)

// tableConcurrent: inbound queries, answered outbound queries, AddNode, maintenance pings, ageing
// and every read-only API call hit one server from many goroutines at once (race detector on). No
// per-event attribution is possible here; at the quiescent end the C05 invariants must hold and
// (C06) every entry must be somebody who contacted the node directly during the run.
func tableConcurrent(c *evid.Ctx, prop string) {
	r := c.R.Fork("tableconc")
	rounds := c.Scale(24, 600)
	for round := 0; round < rounds && c.NumViolations() < 20; round++ {
		d, err := tbl.NewDriver(r.Fork("driver"), round%3 == 2, nil, false, func(cfg *dht.ServerConfig) {
			cfg.QueryResendDelay = func() time.Duration { return time.Millisecond }
		})
		if err != nil {
			c.Inconclusive(err.Error())
			return
		}
		d.SetQueryDelay(time.Millisecond)
		root := d.Root
		// peers that answer whatever we send them, under a fixed ID per address
		var pmu sync.Mutex
		ids := map[string][20]byte{}
		direct := map[tbl.Pair]bool{}
		idFor := func(a *net.UDPAddr, rr *gen.Rand) [20]byte {
			pmu.Lock()
			defer pmu.Unlock()
			id, ok := ids[a.String()]
			if !ok {
				id = rr.IDWithPrefix(root, rr.Intn(6))
				if d.Enforce {
					id = secureFor(id, a.IP)
				}
				ids[a.String()] = id
			}
			return id
		}
		hr := r.Fork("hook")
		d.N.Conn.SetHook(func(dg simnet.Datagram) error {
			m, err := benc.DecodeDict(dg.B)
			if err != nil || m["y"] != "q" {
				return nil
			}
			pmu.Lock()
			silent := hr.Intn(4) == 0
			pmu.Unlock()
			if silent {
				return nil
			}
			t, _ := benc.Str(m, "t")
			id := idFor(dg.To, hr)
			pmu.Lock()
			direct[tbl.Pair{Addr: dg.To.String(), ID: id}] = true
			pmu.Unlock()
			d.N.Conn.Inject(srv.Response(t, benc.Dict{"id": id}), dg.To)
			return nil
		})
		var wg sync.WaitGroup
		worker := func(name string, n int, f func(rr *gen.Rand, i int)) {
			rr := r.Fork(name)
			wg.Add(1)
			go func() {
				defer wg.Done()
				for i := 0; i < n; i++ {
					f(rr, i)
				}
			}()
		}
		addrOf := func(rr *gen.Rand) *net.UDPAddr {
			if rr.Intn(5) == 0 {
				return &net.UDPAddr{IP: rr.PublicIPv6(), Port: rr.Port()}
			}
			return &net.UDPAddr{IP: rr.PublicIPv4(), Port: 2000 + rr.Intn(40)}
		}
		for w := 0; w < 3; w++ {
			worker(fmt.Sprintf("inbound%d", w), 150, func(rr *gen.Rand, i int) {
				a := addrOf(rr)
				id := idFor(a, rr)
				pmu.Lock()
				direct[tbl.Pair{Addr: a.String(), ID: id}] = true
				pmu.Unlock()
				d.N.Conn.Inject(srv.Query(gen.Pick(rr, []string{"ping", "find_node", "get_peers"}), "cq", benc.Dict{"id": id, "target": rr.ID(), "info_hash": rr.ID()}), a)
			})
		}
		for w := 0; w < 3; w++ {
			worker(fmt.Sprintf("outbound%d", w), 60, func(rr *gen.Rand, i int) {
				d.N.S.Ping(addrOf(rr))
			})
		}
		// several callers add the same few unknown nodes at the same time
		pool := make([]*net.UDPAddr, 12)
		pr := r.Fork("pool")
		for i := range pool {
			pool[i] = &net.UDPAddr{IP: pr.PublicIPv4(), Port: pr.Port()}
		}
		for w := 0; w < 4; w++ {
			worker(fmt.Sprintf("addsame%d", w), len(pool), func(rr *gen.Rand, i int) {
				a := pool[i]
				id := idFor(a, rr)
				pmu.Lock()
				direct[tbl.Pair{Addr: a.String(), ID: id}] = true
				pmu.Unlock()
				d.N.S.AddNode(krpc.NodeInfo{ID: id, Addr: krpc.NodeAddr{IP: a.IP, Port: a.Port}})
			})
		}
		worker("addnode", 60, func(rr *gen.Rand, i int) {
			a := addrOf(rr)
			id := idFor(a, rr)
			pmu.Lock()
			direct[tbl.Pair{Addr: a.String(), ID: id}] = true
			pmu.Unlock()
			d.N.S.AddNode(krpc.NodeInfo{ID: id, Addr: krpc.NodeAddr{IP: a.IP, Port: a.Port}})
		})
		worker("maintenance", 40, func(rr *gen.Rand, i int) {
			snap := d.N.S.VerifTable()
			if len(snap.Nodes) == 0 {
				return
			}
			nd := gen.Pick(rr, snap.Nodes)
			ctx, cancel := context.WithTimeout(context.Background(), 50*time.Millisecond)
			d.N.S.VerifQuestionablePing(ctx, dht.NewAddr(&net.UDPAddr{IP: nd.IP, Port: nd.Port}), nd.Id)
			cancel()
		})
		worker("readers", 120, func(rr *gen.Rand, i int) {
			switch i % 5 {
			case 0:
				d.N.S.Stats()
			case 1:
				d.N.S.Nodes()
			case 2:
				d.N.S.NumNodes()
			case 3:
				// A report written through a slow writer while the table changes must still be one
				// consistent picture: its total equals the sum of its per-bucket counts.
				w := &slowWriter{}
				d.N.S.WriteStatus(w)
				total, sum := -1, 0
				for _, line := range strings.Split(w.sb.String(), "\n") {
					var g, t, bi, bn int
					if _, err := fmt.Sscanf(line, "Nodes in table: %d good, %d total", &g, &t); err == nil {
						total = t
					}
					if _, err := fmt.Sscanf(line, "b# %d: %d nodes", &bi, &bn); err == nil {
						sum += bn
					}
				}
				if total >= 0 && total != sum && prop == "C05" {
					pmu.Lock()
					c.Violation("status-report-disagrees-with-itself", fmt.Sprintf("WriteStatus while the table was changing: summary says %d entries, the buckets it lists hold %d", total, sum), nil)
					pmu.Unlock()
				}
				pmu.Lock()
				c.Count("status reports checked for internal agreement under concurrent change", 1)
				pmu.Unlock()
			case 4:
				d.N.S.VerifTable()
			}
		})
		worker("ageing", 6, func(rr *gen.Rand, i int) {
			time.Sleep(300 * time.Microsecond)
			d.N.S.VerifAge(gen.Pick(rr, []time.Duration{time.Minute, 20 * time.Minute}))
		})
		wg.Wait()
		if err := d.N.Quiesce(nil); err != nil {
			c.Inconclusive(err.Error())
			d.Close()
			return
		}
		snap := d.N.S.VerifTable()
		c.Eval(1)
		c.Count("concurrent table rounds", 1)
		c.Count("entries in tables after concurrent rounds", len(snap.Nodes))
		c.Distinct(gen.Hash64("tableconc", round, len(snap.Nodes)))
		d.Trace = []string{fmt.Sprintf("concurrent round %d (inbound queries, answered pings, AddNode, maintenance pings, readers, ageing in parallel)", round)}
		tblReport(c, prop, d.CheckWellFormed(snap))
		if prop == "C06" {
			pmu.Lock()
			for _, nd := range snap.Nodes {
				if !direct[tbl.Pair{Addr: nd.Addr, ID: nd.Id}] {
					c.Violation("entry-admitted-without-direct-contact:concurrent", fmt.Sprintf("%x@%s is in the table after the concurrent round; nobody with that address and ID sent a query, answered one or was added", nd.Id, nd.Addr), nil)
					break
				}
			}
			pmu.Unlock()
		}
		d.Close()
	}
}

func secureFor(id [20]byte, ip net.IP) [20]byte { return refSecure(id, ip) }


type slowWriter struct {
	sb    strings.Builder
	calls int
}

func (w *slowWriter) Write(b []byte) (int, error) {
	w.calls++
	if w.calls <= 3 {
		time.Sleep(150 * time.Microsecond)
	}
	return w.sb.Write(b)
}
