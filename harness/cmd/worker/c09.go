package main

import (
	"fmt"
	"net"
	"sort"
	"strings"
	"time"

	"github.com/anacrolix/dht/v2"
	peer_store "github.com/anacrolix/dht/v2/peer-store"

	"verifharness/benc"
	"verifharness/evid"
	"verifharness/gen"
	"verifharness/ref"
	"verifharness/tbl"
)

func init() { register("C09", c09) }

// buildTable drives the server through traffic so that chosen buckets hold mixes of good,
// questionable, bad and never-answered entries of both families.
func buildTable(d *tbl.Driver, r *gen.Rand) (buckets []int) {
	buckets = []int{0, 1, 2}
	for i := 0; i < r.Range(1, 4); i++ {
		buckets = append(buckets, r.Range(3, 20))
	}
	if r.Bool() {
		buckets = append(buckets, r.Range(20, 159))
	}
	mk := func(b int) tbl.Contact {
		var ua *net.UDPAddr
		switch r.Intn(4) {
		case 0:
			ua = &net.UDPAddr{IP: r.PublicIPv6(), Port: r.Port()}
		case 1:
			ua = &net.UDPAddr{IP: gen.V4Mapped(r.PublicIPv4()), Port: r.Port()}
		default:
			ua = &net.UDPAddr{IP: r.PublicIPv4(), Port: r.Port()}
		}
		id := r.IDWithPrefix(d.Root, b)
		if d.Enforce {
			id = ref.Bep42Secure(id, ua.IP)
		}
		return tbl.Contact{UDP: ua, ID: id}
	}
	var old []tbl.Contact
	for _, b := range buckets {
		for i := 0; i < r.Intn(7); i++ {
			c := mk(b)
			old = append(old, c)
			if r.Intn(4) == 0 {
				d.InboundQuery(c, false)
			} else {
				d.OutboundAnswered(c, false)
			}
		}
	}
	d.Age(gen.Pick(r, []time.Duration{17 * time.Minute, 40 * time.Minute, 2 * time.Hour}))
	for _, c := range old {
		if r.Intn(3) == 0 {
			d.InboundQuery(c, false) // answered long ago, queried just now
		}
	}
	for _, b := range buckets {
		for i := 0; i < r.Intn(8); i++ {
			c := mk(b)
			switch r.Intn(5) {
			case 0:
				d.InboundQuery(c, false)
			case 1:
				d.AddNode(c)
			default:
				d.OutboundAnswered(c, false)
			}
		}
	}
	if r.Bool() {
		d.Age(gen.Pick(r, []time.Duration{time.Minute, 5 * time.Minute, 13 * time.Minute}))
	}
	// Unsolicited "responses" from entries that never answered anything: must not make them
	// look like responders.
	for _, n := range d.N.S.VerifTable().Nodes {
		if n.LastGotResponse.IsZero() && r.Bool() {
			d.Unsolicited(tbl.Contact{UDP: &net.UDPAddr{IP: n.IP, Port: n.Port}, ID: n.Id})
		}
	}
	snap := d.N.S.VerifTable()
	for _, n := range snap.Nodes {
		switch r.Intn(6) {
		case 0:
			d.QuestionablePing(n, "timeout")
		case 1:
			d.QuestionablePing(n, "ok")
		}
	}
	// Entries (including ones that have just failed their ping) query us again.
	for _, n := range d.N.S.VerifTable().Nodes {
		if r.Intn(4) == 0 {
			d.InboundQuery(tbl.Contact{UDP: &net.UDPAddr{IP: n.IP, Port: n.Port}, ID: n.Id}, r.Intn(6) == 0)
		}
	}
	return
}

// C09 — replies propagate only good contacts, nearest buckets first, right family.
func c09(c *evid.Ctx) {
	r := c.R.Fork("c09")
	nt := c.Scale(150, 2500)
	nq := 40
	if !c.Quick() {
		nq = 100
	}
	for t := 0; t < nt && c.NumViolations() < 20; t++ {
		enforce := t%5 == 4
		ps := &peer_store.InMemory{}
		withStore := t%3 == 0
		d, err := tbl.NewDriver(r.Fork("driver"), enforce, nil, false, func(cfg *dht.ServerConfig) {
			if withStore {
				cfg.PeerStore = ps
			}
		})
		if err != nil {
			c.Inconclusive(err.Error())
			return
		}
		if t%4 == 1 {
			// A transport whose addresses are not *net.UDPAddr (the library then only has their
			// String form to go by): nothing about the replies may change.
			d.N.Conn.SetWrapAddrs(true)
			c.Count("tables built over a transport with its own net.Addr type", 1)
		}
		buckets := buildTable(d, r)
		if d.Err != nil {
			c.Inconclusive(d.Err.Error())
			d.Close()
			continue
		}
		c.Count("tables built through traffic", 1)
		for q := 0; q < nq && c.NumViolations() < 20; q++ {
			var src *net.UDPAddr
			srcForm := gen.Pick(r, []string{"v4", "v6", "mapped"})
			switch srcForm {
			case "v4":
				src = &net.UDPAddr{IP: r.PublicIPv4(), Port: r.Port()}
			case "v6":
				src = &net.UDPAddr{IP: r.PublicIPv6(), Port: r.Port()}
			default:
				src = &net.UDPAddr{IP: gen.V4Mapped(r.PublicIPv4()), Port: r.Port()}
			}
			var target [20]byte
			switch r.Intn(10) {
			case 0:
				target = d.Root
			case 1:
				target = r.ID()
			case 2:
				target = r.IDWithPrefix(d.Root, r.Intn(160))
			default:
				target = r.IDWithPrefix(d.Root, gen.Pick(r, buckets))
			}
			decoy := r.IDWithPrefix(d.Root, gen.Pick(r, []int{0, 1, 2, 159}))
			method := gen.Pick(r, []string{"find_node", "get_peers", "get"})
			a := benc.Dict{"id": r.ID()}
			if method == "get_peers" {
				a["info_hash"], a["target"] = target, decoy
			} else {
				a["target"], a["info_hash"] = target, decoy
			}
			if r.Intn(4) == 0 {
				// the decoy field absent altogether
				if method == "get_peers" {
					delete(a, "target")
				} else {
					delete(a, "info_hash")
				}
			}
			var want []string
			wk := r.Intn(7)
			switch wk {
			case 1:
				a["want"] = benc.List{}
			case 2:
				a["want"], want = benc.List{"n4"}, []string{"n4"}
			case 3:
				a["want"], want = benc.List{"n6"}, []string{"n6"}
			case 4:
				a["want"], want = benc.List{"n4", "n6"}, []string{"n4", "n6"}
			case 5:
				a["want"], want = benc.List{"zz"}, []string{"zz"}
			}
			want4, want6 := src.IP.To4() != nil, src.IP.To4() == nil
			if len(want) > 0 {
				want4, want6 = false, false
				for _, w := range want {
					want4 = want4 || w == "n4"
					want6 = want6 || w == "n6"
				}
			}
			m := benc.Dict{"y": "q", "q": method, "t": "c9", "a": a}
			if r.Bool() {
				m["ro"] = int64(1)
			}
			c.WAL("table %d query %d: %s target=%x want=%v from %v", t, q, method, target, want, src)
			rs, err := d.N.Ask(benc.Encode(m), src)
			if err != nil {
				c.Inconclusive(err.Error())
				break
			}
			snap := d.N.S.VerifTable()
			c.Eval(1)
			c.Count("replies checked", 1)
			b := ref.SharedPrefix(d.Root, target)
			if b == 160 {
				b = 159
			}
			desc := fmt.Sprintf("%s target=%x (bucket %d) want=%v source=%v enforce=%v", method, target, b, want, src, enforce)
			rp := map[string]any{"query": desc, "table_entries": len(snap.Nodes)}
			if len(rs) != 1 || rs[0].Y() != "r" {
				c.Violation("query-not-answered-with-response:"+method, fmt.Sprintf("%s: %d replies", desc, len(rs)), rp)
				continue
			}
			ret := rs[0].R()
			if vals, _ := benc.Lst(ret, "values"); len(vals) > 0 {
				c.Count("get_peers replies carrying values instead of nodes (node lists not judged)", 1)
				continue
			}
			for _, fam := range []struct {
				key    string
				width  int
				wanted bool
				v4     bool
			}{{"nodes", 26, want4, true}, {"nodes6", 38, want6, false}} {
				raw, present := benc.Str(ret, fam.key)
				if _, any := ret[fam.key]; any && !present {
					c.Violation("node-list-not-a-string:"+fam.key, desc, rp)
					continue
				}
				if present && !fam.wanted {
					c.Violation(fam.key+"-sent-to-requester-not-wanting-that-family:"+method, fmt.Sprintf("%s: %s has %d bytes", desc, fam.key, len(raw)), rp)
					continue
				}
				if !fam.wanted {
					continue
				}
				if len(raw)%fam.width != 0 {
					c.Violation(fam.key+"-length-not-multiple-of-entry-width", fmt.Sprintf("%s: %d bytes", desc, len(raw)), rp)
					continue
				}
				// Candidate sets per bucket from the snapshot.
				type ent struct {
					n       dht.VerifNode
					good    bool
					certain bool
				}
				byKey := map[string]ent{}
				G := map[int][]ent{}
				uncertain := false
				for _, n := range snap.Nodes {
					isv4 := n.IP.To4() != nil
					if isv4 != fam.v4 {
						continue
					}
					g, cert := d.RefGood(n, snap.Now)
					if g && n.LastGotResponse.IsZero() {
						g = false
					}
					e := ent{n, g, cert}
					byKey[string(n.Id[:])+"|"+n.Addr] = e
					if !cert {
						uncertain = true
					}
					if g && cert {
						G[n.Bucket] = append(G[n.Bucket], e)
					}
				}
				cnt := len(raw) / fam.width
				c.Distinct(gen.Hash64(method, fam.key, srcForm, wk, b, cnt, len(G[b])))
				if cnt > 8 {
					c.Violation(fam.key+"-more-than-k-contacts", fmt.Sprintf("%s: %d contacts", desc, cnt), rp)
					continue
				}
				if cnt > 0 {
					c.Count("non-empty node lists checked", 1)
				}
				seen := map[string]bool{}
				perBucket := map[int]int{}
				bad := false
				for i := 0; i < cnt; i++ {
					e := raw[i*fam.width : (i+1)*fam.width]
					var id [20]byte
					copy(id[:], e[:20])
					ip := net.IP(e[20 : fam.width-2])
					port := int(e[fam.width-2])<<8 | int(e[fam.width-1])
					if fam.v4 == false && ip.To4() != nil {
						c.Violation("ipv4-contact-in-nodes6:"+method, fmt.Sprintf("%s: %v", desc, ip), rp)
						bad = true
						break
					}
					k := string(id[:]) + "|" + (&net.UDPAddr{IP: ip, Port: port}).String()
					if seen[k] {
						c.Violation("duplicate-contact-in-reply", fmt.Sprintf("%s: %x@%v:%d twice", desc, id, ip, port), rp)
						bad = true
						break
					}
					seen[k] = true
					if id == d.Root {
						c.Violation("responder-lists-itself", desc, rp)
						bad = true
						break
					}
					en, ok := byKey[k]
					if !ok {
						c.Violation("contact-not-in-routing-table:"+method, fmt.Sprintf("%s: %x@%v:%d", desc, id, ip, port), rp)
						bad = true
						break
					}
					if !d.Answered[tbl.Pair{Addr: en.n.Addr, ID: en.n.Id}] {
						c.Violation("propagated-contact-never-answered-a-query-of-ours:"+method, fmt.Sprintf("%s: %x@%v:%d is listed, but the harness never saw it answer one of this node's queries", desc, id, ip, port), rp)
						bad = true
						break
					}
					if en.certain && !en.good {
						why := "not good"
						if en.n.LastGotResponse.IsZero() {
							why = "never answered one of the responder's queries"
						} else if en.n.FailedLastQuestionablePing {
							why = "bad (failed its last ping)"
						} else {
							why = fmt.Sprintf("questionable (last response %v ago, last query %v ago)", snap.Now.Sub(en.n.LastGotResponse).Round(time.Second), snap.Now.Sub(en.n.LastGotQuery).Round(time.Second))
						}
						c.Violation("propagated-contact-is-not-good:"+method, fmt.Sprintf("%s: %x@%v:%d is %s", desc, id, ip, port, why), rp)
						bad = true
						break
					}
					if en.n.Bucket > b {
						c.Violation("contact-from-bucket-nearer-than-the-targets:"+method, fmt.Sprintf("%s: %x@%v:%d sits in bucket %d", desc, id, ip, port, en.n.Bucket), rp)
						bad = true
						break
					}
					perBucket[en.n.Bucket]++
				}
				if bad || uncertain {
					continue
				}
				// Walk from the target's bucket outward.
				total := 0
				var walk []string
				for j := b; j >= 0; j-- {
					g := len(G[j])
					room := 8 - total
					switch {
					case room <= 0:
						if perBucket[j] > 0 {
							c.Violation("contact-from-farther-bucket-while-nearer-good-ones-fill-the-list:"+method, fmt.Sprintf("%s: %d from bucket %d; walk %v", desc, perBucket[j], j, walk), rp)
							bad = true
						}
					case g <= room:
						if perBucket[j] != g {
							c.Violation("good-contact-from-nearer-bucket-omitted:"+method, fmt.Sprintf("%s: bucket %d has %d good %s contacts, reply holds %d of them (%d/8 already taken by nearer buckets); reply per bucket %v",
								desc, j, g, fam.key, perBucket[j], total, perBucket), rp)
							bad = true
						}
						total += g
					default:
						if perBucket[j] != room {
							c.Violation("reply-not-filled-from-available-good-contacts:"+method, fmt.Sprintf("%s: bucket %d has %d good contacts for %d free slots, reply holds %d", desc, j, g, room, perBucket[j]), rp)
							bad = true
						}
						total = 8
					}
					if g > 0 {
						walk = append(walk, fmt.Sprintf("b%d:%d", j, g))
					}
					if bad {
						break
					}
				}
				if !bad && c.WantSample() && cnt > 2 && q%13 == 0 {
					var pb []string
					for j, n := range perBucket {
						pb = append(pb, fmt.Sprintf("bucket %d: %d", j, n))
					}
					sort.Strings(pb)
					c.Sample(map[string]any{"query": desc, "list": fam.key, "contacts": cnt, "per_bucket": strings.Join(pb, ", "), "good_available": walk})
				}
			}
		}
		d.Close()
	}
	c.Floor("non-empty node lists checked", 1)
}
