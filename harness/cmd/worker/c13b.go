package main

import (
	"bytes"
	"context"
	"errors"
	"sync/atomic"
	"fmt"
	"net"
	"runtime"
	"strconv"
	"strings"
	"sync"
	"time"

	"github.com/anacrolix/dht/v2"
	"github.com/anacrolix/dht/v2/bep44"
	"github.com/anacrolix/dht/v2/int160"
	"github.com/anishathalye/porcupine"

	"verifharness/benc"
	"verifharness/census"
	"verifharness/evid"
	"verifharness/gen"
	"verifharness/ref"
	"verifharness/simnet"
	"verifharness/srv"
)

func curGoroutine() int64 {
	var buf [64]byte
	n := runtime.Stack(buf[:], false)
	f := bytes.Fields(buf[:n])
	id, _ := strconv.ParseInt(string(f[1]), 10, 64)
	return id
}

// c13server: inbound put datagrams racing local Server.Put calls on one target, over a gated store.
func c13server(c *evid.Ctx) {
	r := c.R.Fork("server")
	scen := c.Scale(120, 1500)
	for s := 0; s < scen && c.NumViolations() < 20; s++ {
		pub, priv := edKey(r)
		key := c13key{pub, priv, nil}
		gs := newGatedStore()
		n, err := srv.New(dht.ServerConfig{NoSecurity: true, Store: gs})
		if err != nil {
			c.Inconclusive(err.Error())
			return
		}
		var alloc gen.AddrAlloc
		nIn, nApi := r.Range(1, 2), r.Range(1, 2)
		type inb struct {
			put  regPut
			src  *net.UDPAddr
			tok  string
			call int64
		}
		var ins []inb
		for i := 0; i < nIn; i++ {
			src := alloc.V4()
			tok, err := n.Token(src, r.ID())
			if err != nil {
				c.Inconclusive(err.Error())
				return
			}
			ins = append(ins, inb{put: regPut{seq: int64(r.Range(1, 4)), cas: gen.Pick(r, []int64{0, 0, 1}), v: gen.Pick(r, []string{"a", "b"})}, src: src, tok: tok})
		}
		var hist []porcupine.Operation
		var hmu sync.Mutex
		// replies to inbound puts: return event when the reply datagram is written
		n.Conn.SetHook(func(d simnet.Datagram) error {
			for i := range ins {
				if d.To.String() == ins[i].src.String() {
					m, err := benc.DecodeDict(d.B)
					if err != nil || m["t"] != "cp" {
						continue
					}
					out := 0
					if m["y"] == "e" {
						if l, ok := m["e"].([]any); ok && len(l) > 0 {
							if code, ok := l[0].(int64); ok {
								out = int(code)
							}
						}
					}
					hmu.Lock()
					hist = append(hist, porcupine.Operation{ClientId: i, Input: c13op{put: ins[i].put}, Call: ins[i].call, Output: c13out{outcome: out}, Return: c13clock.Add(1)})
					hmu.Unlock()
				}
			}
			return nil
		})
		gs.enabled.Store(true)
		var wg sync.WaitGroup
		for i := 0; i < nApi; i++ {
			p := regPut{seq: int64(r.Range(1, 4)), cas: gen.Pick(r, []int64{0, 0, 1}), v: gen.Pick(r, []string{"a", "b"})}
			i := i
			wg.Add(1)
			go func() {
				defer wg.Done()
				gs.register(100 + i)
				call := c13clock.Add(1)
				res := n.S.Put(context.Background(), dht.NewAddr(&net.UDPAddr{IP: net.IP{203, 0, 113, 9}, Port: 9}), key.item(p).ToPut(), "tok", dht.QueryRateLimiting{})
				out := 0
				if res.Err != nil && !strings.Contains(res.Err.Error(), "timed out") {
					out = outcomeOf(res.Err)
				}
				hmu.Lock()
				hist = append(hist, porcupine.Operation{ClientId: 100 + i, Input: c13op{put: p}, Call: call, Output: c13out{outcome: out}, Return: c13clock.Add(1)})
				hmu.Unlock()
			}()
		}
		for i := range ins {
			ins[i].call = c13clock.Add(1)
			n.Conn.Inject(srv.Query("put", "cp", key.wireArgs(ins[i].put, ins[i].tok, r.ID())), ins[i].src)
		}
		// Grant store calls in PRNG order until everything has gone through.
		var gl []string
		done := make(chan struct{})
		go func() { wg.Wait(); close(done) }()
		deadline := time.Now().Add(60 * time.Second)
		apiDone := false
		for {
			gs.mu.Lock()
			if len(gs.waiting) > 0 {
				k := r.Intn(len(gs.waiting))
				req := gs.waiting[k]
				gs.waiting = append(gs.waiting[:k], gs.waiting[k+1:]...)
				gs.mu.Unlock()
				gl = append(gl, fmt.Sprintf("w%d.%s", req.worker, req.op))
				close(req.grant)
				continue
			}
			gs.mu.Unlock()
			select {
			case <-done:
				apiDone = true
			default:
			}
			hmu.Lock()
			nh := len(hist)
			hmu.Unlock()
			if apiDone && nh == nIn+nApi {
				break
			}
			if time.Now().After(deadline) {
				// Nothing waits at the gate, yet operations have not returned: are they parked for good?
				stuck := census.Stuck(census.ServeLoop, 2*time.Second)
				if len(stuck) > 0 {
					c.Violation("put-or-get-never-returns", fmt.Sprintf("inbound-vs-local scenario: %d of %d operations returned, nothing is waiting at the store gate, %d library goroutines are parked for good; grants %v\n%s", nh, nIn+nApi, len(stuck), gl, truncateS(census.Dump(stuck), 4000)), nil)
				} else {
					c.Inconclusive(fmt.Sprintf("server race scenario did not finish: %d of %d operations returned; grants %v", nh, nIn+nApi, gl))
				}
				break
			}
			time.Sleep(30 * time.Microsecond)
		}
		gs.enabled.Store(false)
		n.Quiesce(nil)
		c.Eval(1)
		c.Count("inbound-vs-local race scenarios", 1)
		c.Distinct(gen.Hash64("srvrace", strings.Join(gl, " "), nIn, nApi))
		hmu.Lock()
		h := append([]porcupine.Operation(nil), hist...)
		hmu.Unlock()
		if res := porcupine.CheckOperations(c13model, h); !res {
			var lines []string
			for _, o := range h {
				lines = append(lines, fmt.Sprintf("[client %d, %d..%d] %s", o.ClientId, o.Call, o.Return, c13model.DescribeOperation(o.Input, o.Output)))
			}
			c.Violation("concurrent-history-not-linearizable:inbound-vs-local", fmt.Sprintf("store calls granted in order %v; history:\n%s", gl, strings.Join(lines, "\n")), nil)
		}
		n.Close()
	}
}

// ageStore keeps the pointers the wrapper stored, so that the harness can age them.
type ageStore struct {
	mu sync.Mutex
	m  map[bep44.Target]*bep44.Item
}

func (s *ageStore) Put(i *bep44.Item) error {
	s.mu.Lock()
	defer s.mu.Unlock()
	s.m[i.Target()] = i
	return nil
}
func (s *ageStore) Get(t bep44.Target) (*bep44.Item, error) {
	s.mu.Lock()
	defer s.mu.Unlock()
	if i, ok := s.m[t]; ok {
		return i, nil
	}
	return nil, bep44.ErrItemNotFound
}
func (s *ageStore) Del(t bep44.Target) error {
	s.mu.Lock()
	defer s.mu.Unlock()
	delete(s.m, t)
	return nil
}

func c13expiry(c *evid.Ctx) {
	r := c.R.Fork("expiry")
	n := c.Scale(400, 8000)
	st := &ageStore{m: map[bep44.Target]*bep44.Item{}}
	node, err := srv.New(dht.ServerConfig{NoSecurity: true, Store: st, Exp: 2 * time.Hour})
	if err != nil {
		c.Inconclusive(err.Error())
		return
	}
	defer node.Close()
	var alloc gen.AddrAlloc
	ages := []time.Duration{0, time.Hour, time.Hour + 58*time.Minute, 2*time.Hour + 2*time.Minute, 10 * time.Hour}
	for i := 0; i < n && c.NumViolations() < 20; i++ {
		pub, priv := edKey(r)
		key := c13key{pub, priv, nil}
		p := regPut{seq: int64(r.Intn(5)), v: "x"}
		put := func() bool {
			src := alloc.V4()
			tok, err := node.Token(src, r.ID())
			if err != nil {
				return false
			}
			rs, err := node.Ask(srv.Query("put", "p", key.wireArgs(p, tok, r.ID())), src)
			return err == nil && len(rs) == 1 && rs[0].Y() == "r"
		}
		if !put() {
			c.Violation("valid-put-rejected", "expiry scenario", nil)
			continue
		}
		age := gen.Pick(r, ages)
		refresh := r.Intn(3) == 0
		st.mu.Lock()
		it := st.m[key.target()]
		st.mu.Unlock()
		if it == nil {
			c.Violation("accepted-put-not-in-store", "expiry scenario", nil)
			continue
		}
		bep44.VerifAgeItem(it, age)
		if refresh && age < 2*time.Hour {
			// same seq, same value: resets the age; then age the refreshed item by another hour
			if !put() {
				c.Violation("refresh-put-rejected", fmt.Sprintf("item aged %v, same seq and value re-put", age), nil)
				continue
			}
			st.mu.Lock()
			it = st.m[key.target()]
			st.mu.Unlock()
			bep44.VerifAgeItem(it, 90*time.Minute)
			age = 90 * time.Minute
		}
		rs, err := node.Ask(srv.Query("get", "g", benc.Dict{"id": r.ID(), "target": key.target()}), alloc.V4())
		c.Eval(1)
		c.Count("expiry cases judged", 1)
		c.Distinct(gen.Hash64("exp", int64(age), refresh))
		if err != nil || len(rs) != 1 || rs[0].Y() != "r" {
			c.Violation("get-not-answered", "expiry scenario", nil)
			continue
		}
		_, served := rs[0].R()["v"]
		want := age < 2*time.Hour
		if served != want {
			c.Violation(fmt.Sprintf("expiry-wrong:served=%v", served), fmt.Sprintf("item stored %v ago (expiry 2h, refreshed=%v): served=%v", age, refresh, served), nil)
		}
	}
}

func refSHA1(b []byte) [20]byte { return ref.SHA1(b) }

func krpcInt(id [20]byte) int160.T { return int160.FromByteArray(id) }

func refSecure(id [20]byte, ip net.IP) [20]byte { return ref.Bep42Secure(id, ip) }


// flakyStore fails the next Get when armed.
type flakyStore struct {
	inner *bep44.Memory
	fail  atomic.Bool
}

var errFlaky = errors.New("verif: transient store failure")

func (f *flakyStore) Put(i *bep44.Item) error { return f.inner.Put(i) }
func (f *flakyStore) Del(t bep44.Target) error { return f.inner.Del(t) }
func (f *flakyStore) Get(t bep44.Target) (*bep44.Item, error) {
	if f.fail.CompareAndSwap(true, false) {
		return nil, errFlaky
	}
	return f.inner.Get(t)
}

// c13faults: a put during which the store's Get fails must not be treated as "nothing stored".
func c13faults(c *evid.Ctx) {
	r := c.R.Fork("faults")
	n := c.Scale(200, 8000)
	for i := 0; i < n && c.NumViolations() < 20; i++ {
		pub, priv := edKey(r)
		key := c13key{pub, priv, nil}
		fs := &flakyStore{inner: bep44.NewMemory()}
		w := bep44.NewWrapper(fs, 2*time.Hour)
		hi := int64(r.Range(2, 9))
		if err := w.Put(key.item(regPut{seq: hi, v: "current"})); err != nil {
			c.Violation("valid-put-rejected", err.Error(), nil)
			continue
		}
		p := regPut{seq: int64(r.Range(0, int(hi))), v: gen.Pick(r, []string{"current", "older"}), cas: gen.Pick(r, []int64{0, 1})}
		fs.fail.Store(true)
		err := w.Put(key.item(p))
		it, gerr := w.Get(key.target())
		c.Eval(1)
		c.Count("puts during a transient store failure judged", 1)
		c.Distinct(gen.Hash64("flaky", hi, p.seq, p.v, p.cas))
		if gerr != nil || it.Seq != hi || fmt.Sprint(it.V) != "current" {
			got := "nothing"
			if gerr == nil {
				got = fmt.Sprintf("seq=%d v=%v", it.Seq, it.V)
			}
			c.Violation("stored-seq-decreased-after-store-failure", fmt.Sprintf("stored seq %d; the store's Get failed once during a put of seq %d (returned %v); a get now returns %s", hi, p.seq, err, got), nil)
		}
	}
}
