package main

import (
	"context"
	"fmt"
	"net"
	"sync"
	"time"

	"github.com/anacrolix/dht/v2"
	peer_store "github.com/anacrolix/dht/v2/peer-store"
	"golang.org/x/time/rate"

	"verifharness/benc"
	"verifharness/evid"
	"verifharness/gen"
	"verifharness/simnet"
	"verifharness/srv"
)

func init() { register("C20", c20) }

type c20query struct {
	dest    *net.UDPAddr
	tries   int
	policy  string // default notfirst notany
	answers bool
	failAt  int // 1-based send index whose WriteTo fails, 0 = none
	res     dht.QueryResult
}

func (q *c20query) rated(sendIdx int) bool {
	switch q.policy {
	case "notany":
		return false
	case "notfirst":
		return sendIdx > 1
	}
	return true
}

// C20 — outbound traffic never exceeds the configured send budget.
func c20(c *evid.Ctx) {
	r := c.R.Fork("c20")
	runs := c.Scale(400, 30000)
	for run := 0; run < runs && c.NumViolations() < 20; run++ {
		c20exact(c, r, run)
	}
	pr := c.Scale(10*8, 200*32) / c.NBatch
	if pr < 1 {
		pr = 1
	}
	if c.Quick() && pr > 2 {
		pr = 2
	}
	for run := 0; run < pr && c.NumViolations() < 20; run++ {
		c20positive(c, r, run)
	}
	c.Floor("rated datagrams written", 1)
	c.Floor("sends denied for lack of budget", 1)
}

func c20exact(c *evid.Ctx, r *gen.Rand, run int) {
	B := gen.Pick(r, []int{0, 1, 5, 50})
	lim := rate.NewLimiter(0, B)
	waitToReply := r.Bool()
	mode := gen.Pick(r, []string{"flood", "flood+api", "api", "amplification", "flood+traversal"})
	var swarm *simSwarm
	if mode == "flood+traversal" {
		swarm = newSwarm(r.Fork("swarm"), 20, 30, false)
	}
	n, err := srv.New(dht.ServerConfig{NoSecurity: true, SendLimiter: lim, WaitToReply: waitToReply, PeerStore: &peer_store.InMemory{},
		QueryResendDelay: func() time.Duration { return time.Millisecond },
		StartingNodes: func() ([]dht.Addr, error) {
			if swarm == nil {
				return nil, nil
			}
			return []dht.Addr{dht.NewAddr(swarm.order[0].addr), dht.NewAddr(swarm.order[1].addr), dht.NewAddr(swarm.order[2].addr)}, nil
		}})
	if err != nil {
		c.Inconclusive(err.Error())
		return
	}
	defer n.Close()
	desc := fmt.Sprintf("budget=%d waitToReply=%v mode=%s", B, waitToReply, mode)
	c.WAL("run %d %s", run, desc)
	var alloc gen.AddrAlloc
	// API queries
	var qs []*c20query
	byDest := map[string]*c20query{}
	if mode == "flood+api" || mode == "api" {
		for i := 0; i < r.Range(3, 40); i++ {
			q := &c20query{dest: alloc.V4(), tries: r.Range(1, 3), policy: gen.Pick(r, []string{"default", "default", "notfirst", "notany"}), answers: r.Intn(3) == 0}
			if r.Intn(5) == 0 {
				q.failAt = r.Range(1, q.tries)
			}
			qs = append(qs, q)
			byDest[q.dest.String()] = q
		}
	}
	var hmu sync.Mutex
	sendIdx := map[string]int{}
	swarmHook := simnet.WriteHook(nil)
	if swarm != nil {
		swarmHook = swarm.hook(n)
	}
	n.Conn.SetHook(func(d simnet.Datagram) error {
		if q := byDest[d.To.String()]; q != nil {
			hmu.Lock()
			sendIdx[d.To.String()]++
			k := sendIdx[d.To.String()]
			hmu.Unlock()
			if q.failAt == k {
				return simnet.ErrInjectedWriteFailure
			}
			if q.answers {
				if m, err := benc.DecodeDict(d.B); err == nil {
					t, _ := benc.Str(m, "t")
					n.Conn.Inject(srv.Response(t, benc.Dict{"id": [20]byte{1}}), d.To)
				}
			}
			return nil
		}
		if swarmHook != nil {
			return swarmHook(d)
		}
		return nil
	})
	var wg sync.WaitGroup
	for _, q := range qs {
		q := q
		wg.Add(1)
		go func() {
			defer wg.Done()
			rl := dht.QueryRateLimiting{NotFirst: q.policy == "notfirst", NotAny: q.policy == "notany"}
			q.res = n.S.Query(context.Background(), dht.NewAddr(q.dest), "ping", dht.QueryInput{NumTries: q.tries, RateLimiting: rl})
		}()
	}
	if swarm != nil {
		// a traversal (default rate limiting on every send) competes with the flood for the budget
		wg.Add(1)
		ih := r.ID()
		go func() {
			defer wg.Done()
			n.S.Bootstrap()
			a, err := n.S.Announce(ih, 6881, false)
			if err == nil {
				for range a.Peers {
				}
				<-a.Finished()
			}
		}()
		c.Count("traversals competing for the budget", 1)
	}
	// inbound flood
	flood := 0
	if mode != "api" {
		flood = B*3 + r.Range(5, 60)
	}
	victims := []*net.UDPAddr{alloc.V4(), alloc.V6()}
	for i := 0; i < flood; i++ {
		var src *net.UDPAddr
		if mode == "amplification" {
			src = gen.Pick(r, victims) // many queries "from" one spoofed victim
		} else if r.Bool() {
			src = alloc.V4()
		} else {
			src = alloc.V6()
		}
		var m []byte
		switch r.Intn(7) {
		case 0:
			m = srv.Query("ping", "f", benc.Dict{"id": r.ID()})
		case 1:
			m = srv.Query("find_node", "f", benc.Dict{"id": r.ID(), "target": r.ID()})
		case 2:
			m = srv.Query("get_peers", "f", benc.Dict{"id": r.ID(), "info_hash": r.ID()})
		case 3:
			m = srv.Query("get", "f", benc.Dict{"id": r.ID(), "target": r.ID()})
		case 4:
			m = srv.Query("nosuch", "f", benc.Dict{"id": r.ID()})
		case 5:
			m = srv.Query("find_node", "f", nil) // error 203
		case 6:
			m = srv.Query("announce_peer", "f", nil) // error 203
		}
		n.Conn.Inject(m, src)
	}
	wg.Wait()
	if err := n.Quiesce(nil); err != nil {
		c.Inconclusive(err.Error())
		return
	}
	// traversal with whatever budget is left (sequential, after the flood)
	// classify
	caps := n.Conn.Captured(0)
	perDest := map[string]int{}
	ratedOK, ratedFailed, exemptOK, replies := 0, 0, 0, 0
	for _, d := range caps {
		m, err := benc.DecodeDict(d.B)
		if err != nil {
			c.Violation("undecodable-datagram-written", fmt.Sprintf("%q", truncBytes(d.B)), nil)
			continue
		}
		isRated := true
		if m["y"] == "q" {
			if q := byDest[d.To.String()]; q != nil {
				perDest[d.To.String()]++
				isRated = q.rated(perDest[d.To.String()])
			}
		} else {
			replies++
		}
		switch {
		case isRated && d.Err == nil:
			ratedOK++
		case isRated:
			ratedFailed++
		case d.Err == nil:
			exemptOK++
		}
	}
	remaining := lim.Burst()
	c.Eval(1)
	c.Count("exact-budget scenarios", 1)
	c.Count("rated datagrams written", ratedOK)
	c.Count("rated writes that failed at the socket (token must come back)", ratedFailed)
	c.Count("exempt datagrams written", exemptOK)
	c.Count("inbound queries flooded", flood)
	denied := flood - replies
	for _, q := range qs {
		if q.res.Err != nil && containsRate(q.res.Err.Error()) {
			denied++
		}
	}
	if denied > 0 {
		c.Count("sends denied for lack of budget", denied)
	}
	c.Distinct(gen.Hash64("exact", B, waitToReply, mode, ratedOK, exemptOK, ratedFailed > 0))
	rp := map[string]any{"scenario": desc, "rated_written": ratedOK, "exempt_written": exemptOK, "rated_failed": ratedFailed, "budget_left": remaining}
	if ratedOK > B {
		c.Violation("more-rated-datagrams-than-budget", fmt.Sprintf("%s: %d rated datagrams written with a budget of %d", desc, ratedOK, B), rp)
	}
	if ratedOK != B-remaining {
		c.Violation("budget-conservation-broken", fmt.Sprintf("%s: %d rated datagrams written (+%d failed at the socket), limiter says %d of %d tokens are left (expected %d); exempt written %d",
			desc, ratedOK, ratedFailed, remaining, B, B-ratedOK, exemptOK), rp)
	}
	// per query: what it reports matches what reached the socket
	for _, q := range qs {
		okWrites := 0
		k := 0
		for _, d := range caps {
			if d.To.String() == q.dest.String() {
				k++
				if d.Err == nil {
					okWrites++
				}
			}
		}
		if int(q.res.Writes) != okWrites {
			c.Violation("query-write-count-disagrees-with-socket", fmt.Sprintf("%s: query to %v (tries %d, %s) reports %d writes, socket saw %d good ones", desc, q.dest, q.tries, q.policy, q.res.Writes, okWrites), rp)
		}
		if k > q.tries {
			c.Violation("more-sends-than-tries", fmt.Sprintf("%s: %d sends for NumTries=%d", desc, k, q.tries), rp)
		}
	}
	if c.WantSample() && run%7 == 0 {
		c.Sample(rp)
	}
}

func containsRate(s string) bool {
	for i := 0; i+4 <= len(s); i++ {
		if s[i:i+4] == "rate" {
			return true
		}
	}
	return false
}

// c20positive: for a limiter with a positive rate, every prefix of the capture log obeys
// #rated <= burst + rate * elapsed + 1 (sound under arbitrary scheduling delay: a token is taken
// before its datagram is written).
func c20positive(c *evid.Ctx, r *gen.Rand, run int) {
	rt := gen.Pick(r, []float64{50, 500})
	B := gen.Pick(r, []int{1, 5, 25, 100})
	created := simnet.Now()
	lim := rate.NewLimiter(rate.Limit(rt), B)
	waitToReply := r.Bool()
	n, err := srv.New(dht.ServerConfig{NoSecurity: true, SendLimiter: lim, WaitToReply: waitToReply, QueryResendDelay: func() time.Duration { return time.Millisecond }})
	if err != nil {
		c.Inconclusive(err.Error())
		return
	}
	defer n.Close()
	var alloc gen.AddrAlloc
	var wg sync.WaitGroup
	for i := 0; i < 20; i++ {
		wg.Add(1)
		go func(dest *net.UDPAddr) {
			defer wg.Done()
			n.S.Query(context.Background(), dht.NewAddr(dest), "ping", dht.QueryInput{NumTries: 2})
		}(alloc.V4())
	}
	// queries that give up while they wait for budget (their reservation must be handed back, and
	// nothing more than that)
	for i := 0; i < 60; i++ {
		wg.Add(1)
		d := time.Duration(r.Intn(15000)) * time.Microsecond
		go func(dest *net.UDPAddr) {
			defer wg.Done()
			ctx, cancel := context.WithTimeout(context.Background(), d)
			defer cancel()
			n.S.Query(ctx, dht.NewAddr(dest), "ping", dht.QueryInput{NumTries: 1, RateLimiting: dht.QueryRateLimiting{WaitOnRetries: true}})
		}(alloc.V4())
	}
	// Sends whose socket write blocks for a while and then fails (full send queue, then an error):
	// each hands its token back when it fails, and nothing more than that, however long it took and
	// whatever the other senders did to the limiter meanwhile.
	slow := map[string]time.Duration{}
	var slowDests []*net.UDPAddr
	for i := 0; i < 8; i++ {
		a := alloc.V4()
		slow[a.String()] = time.Duration(r.Range(30, 60)) * time.Millisecond
		slowDests = append(slowDests, a)
	}
	n.Conn.SetHook(func(d simnet.Datagram) error {
		if dur, ok := slow[d.To.String()]; ok {
			time.Sleep(dur)
			return simnet.ErrInjectedWriteFailure
		}
		return nil
	})
	flood := 900
	for i := 0; i < flood; i++ {
		n.Conn.Inject(srv.Query("ping", "f", benc.Dict{"id": r.ID()}), alloc.V4())
		if i%50 == 0 {
			time.Sleep(5 * time.Millisecond)
		}
		if i%100 == 10 && len(slowDests) > 0 {
			dest := slowDests[0]
			slowDests = slowDests[1:]
			wg.Add(1)
			go func() {
				defer wg.Done()
				n.S.Query(context.Background(), dht.NewAddr(dest), "ping", dht.QueryInput{NumTries: 1})
			}()
		}
	}
	wg.Wait()
	if err := n.Quiesce(nil); err != nil {
		c.Inconclusive(err.Error())
		return
	}
	var caps []simnet.Datagram
	for _, d := range n.Conn.Captured(0) {
		if d.Err != nil {
			// the write failed: its token went back to the limiter
			c.Count("slow writes that failed after blocking (token handed back)", 1)
			continue
		}
		caps = append(caps, d)
	}
	c.Eval(1)
	c.Count("positive-rate scenarios", 1)
	c.Count("rated datagrams written", len(caps))
	c.Distinct(gen.Hash64("pos", int(rt), B, waitToReply, len(caps)/10))
	var latest int64
	for i, d := range caps {
		// Capture order and clock reads are not taken atomically; the window of a prefix ends at
		// the latest clock value seen in it.
		if d.At > latest {
			latest = d.At
		}
		el := float64(latest-created) / 1e9
		// The limiter's own clock is not monotone under concurrent use: every caller reads time.Now()
		// before it gets the limiter's mutex, and x/time/rate then sets its "last" to that reading even
		// if a later one was already recorded, so the time a goroutine spends descheduled between the
		// two is credited twice - once per such call, so the surplus grows with the number of calls.
		// The budget is the limiter's, so that is tolerated: 20 ms of rewind plus 2% of the allowance
		// (seen on a loaded machine: 1-2 tokens in 840; a fault that re-credits a burst is far above it).
		bound := (float64(B)+rt*el)*1.02 + 1 + rt*0.020
		if float64(i+1) > bound {
			c.Violation("rated-traffic-exceeds-burst-plus-rate-times-elapsed", fmt.Sprintf("rate=%v/s burst=%d: datagram #%d written %.4fs after the limiter was created; bound %.1f", rt, B, i+1, el, bound), nil)
			break
		}
	}
	if len(caps) < flood+20+60 {
		c.Count("sends denied for lack of budget", flood+80-len(caps))
	}
}
