package main

import (
	"fmt"
	"net"
	"sync"
	"time"

	"github.com/anacrolix/dht/v2"

	"verifharness/benc"
	"verifharness/evid"
	"verifharness/gen"
	"verifharness/ref"
	"verifharness/simnet"
	"verifharness/srv"
	"verifharness/tbl"
)

// c04server: the built-in lookups (Bootstrap, Announce) on a real Server against adversarial
// replies; the oracle sits at the socket: per lookup at most one query datagram per destination and
// method, and none to a destination the server's own lookup filter must reject.
func c04server(c *evid.Ctx) {
	r := c.R.Fork("c04srv")
	runs := c.Scale(80, 4000)
	for run := 0; run < runs && c.NumViolations() < 20; run++ {
		enforce := run%3 == 2
		bl := tbl.NewBlocklist()
		bl.AddNet16(66, 77)
		type peer struct {
			addr *net.UDPAddr
			id   [20]byte
		}
		mkID := func(ip net.IP) [20]byte {
			id := r.ID()
			if enforce {
				id = ref.Bep42Secure(id, ip)
			}
			return id
		}
		var peers []peer
		for i := 0; i < r.Range(3, 25); i++ {
			ip := r.PublicIPv4()
			peers = append(peers, peer{&net.UDPAddr{IP: ip, Port: r.Port()}, mkID(ip)})
		}
		victimIP := r.PublicIPv4()
		victim := &net.UDPAddr{IP: victimIP, Port: r.Port()}
		// destinations that must never be queried
		forbidden := map[string]string{}
		port0 := &net.UDPAddr{IP: r.PublicIPv4(), Port: 0}
		zeroNet := &net.UDPAddr{IP: net.IP{0, byte(r.Intn(256)), 3, 4}, Port: r.Port()}
		blocked := &net.UDPAddr{IP: net.IP{66, 77, byte(r.Intn(256)), 9}, Port: r.Port()}
		insecure := &net.UDPAddr{IP: r.PublicIPv4(), Port: r.Port()}
		zeroNetMapped := &net.UDPAddr{IP: gen.V4Mapped(net.IP{0, byte(r.Intn(256)), 5, 6}), Port: r.Port()}
		blockedMapped := &net.UDPAddr{IP: gen.V4Mapped(net.IP{66, 77, byte(r.Intn(256)), 10}), Port: r.Port()}
		forbidden[port0.String()] = "port 0"
		forbidden[zeroNet.String()] = "0.x.x.x"
		forbidden[blocked.String()] = "blocklisted"
		forbiddenRaw := map[string]string{string(zeroNetMapped.IP) + fmt.Sprint(zeroNetMapped.Port): "0.x.x.x in v4-mapped form", string(blockedMapped.IP) + fmt.Sprint(blockedMapped.Port): "blocklisted, v4-mapped form"}
		if enforce {
			forbidden[insecure.String()] = "only ever listed with an ID that is not valid for its IP"
		}
		var mu sync.Mutex
		lr := r.Fork("lists")
		var n *srv.Node
		n, err := srv.New(dht.ServerConfig{NoSecurity: !enforce, IPBlocklist: bl, PublicIP: r.PublicIPv4(),
			QueryResendDelay: func() time.Duration { return time.Millisecond },
			StartingNodes: func() ([]dht.Addr, error) {
				return []dht.Addr{dht.NewAddr(peers[0].addr), dht.NewAddr(victim), dht.NewAddr(blocked), dht.NewAddr(peers[len(peers)-1].addr)}, nil
			}})
		if err != nil {
			c.Inconclusive(err.Error())
			return
		}
		n.Conn.SetHook(func(d simnet.Datagram) error {
			m, err := benc.DecodeDict(d.B)
			if err != nil || m["y"] != "q" {
				return nil
			}
			t, _ := benc.Str(m, "t")
			mu.Lock()
			var nodes []byte
			add := func(id [20]byte, a *net.UDPAddr) {
				nodes = append(nodes, srv.CompactNode(id, a.IP.To4(), a.Port)...)
			}
			for k := 0; k < lr.Range(2, 8); k++ {
				p := peers[lr.Intn(len(peers))]
				add(p.id, p.addr)
			}
			for k := 0; k < lr.Range(1, 8); k++ {
				add(mkID(victimIP), victim) // the victim again, under yet another ID
			}
			add(lr.ID(), port0)
			add(lr.ID(), zeroNet)
			add(mkID(blocked.IP), blocked)
			bad := lr.ID()
			if enforce && ref.Bep42Valid(bad, insecure.IP) {
				bad[0] ^= 0xff
			}
			add(bad, insecure)
			var nodes6 []byte
			nodes6 = append(nodes6, srv.CompactNode(lr.ID(), zeroNetMapped.IP, zeroNetMapped.Port)...)
			nodes6 = append(nodes6, srv.CompactNode(mkID(blockedMapped.IP), blockedMapped.IP, blockedMapped.Port)...)
			sender := mkID(d.To.IP)
			mu.Unlock()
			n.Conn.Inject(srv.Response(t, benc.Dict{"id": sender, "nodes": string(nodes), "nodes6": string(nodes6), "token": "tok"}), d.To)
			return nil
		})
		for _, op := range []string{"bootstrap", "announce"} {
			n.Conn.ResetCapture()
			done := make(chan struct{})
			go func() {
				defer close(done)
				if op == "bootstrap" {
					n.S.Bootstrap()
					return
				}
				a, err := n.S.Announce(r.ID(), 6881, false)
				if err != nil {
					return
				}
				for range a.Peers {
				}
				<-a.Finished()
			}()
			select {
			case <-done:
			case <-time.After(60 * time.Second):
				c.Inconclusive("server-path " + op + " did not return (C14/C03 judge that)")
				n.Close()
				return
			}
			n.Quiesce(nil)
			per := map[string]int{}
			total := 0
			for _, d := range n.Conn.Captured(0) {
				m, err := benc.DecodeDict(d.B)
				if err != nil || m["y"] != "q" {
					continue
				}
				q, _ := benc.Str(m, "q")
				per[q+" "+d.To.String()]++
				total++
				if why, bad := forbiddenRaw[string(d.To.IP)+fmt.Sprint(d.To.Port)]; bad {
					c.Violation("server-lookup-queried-filtered-address:"+why, fmt.Sprintf("%s (enforce=%v): %s sent to %v (%s)", op, enforce, q, d.To, why), nil)
				}
				if why, bad := forbidden[d.To.String()]; bad {
					c.Violation("server-lookup-queried-filtered-address:"+why, fmt.Sprintf("%s (enforce=%v): %s sent to %v (%s)", op, enforce, q, d.To, why), nil)
				}
			}
			for k, v := range per {
				if v > 1 {
					c.Violation("server-lookup-queried-address-more-than-once", fmt.Sprintf("%s (enforce=%v): %d datagrams for %q", op, enforce, v, k), nil)
					break
				}
			}
			c.Eval(1)
			c.Count("server-path lookups checked at the socket", 1)
			c.Count("server-path query datagrams inspected", total)
			c.Distinct(gen.Hash64("c04srv", op, enforce, len(peers), total))
			if per["find_node "+victim.String()]+per["get_peers "+victim.String()] == 0 && !enforce {
				c.Count("server-path lookups that never reached the victim (unexpected)", 1)
			}
		}
		n.Close()
	}
}
