package main

import (
	"context"
	"errors"
	"fmt"
	"net"
	"strings"
	"sync"
	"sync/atomic"
	"time"

	"github.com/anacrolix/dht/v2"
	"github.com/anacrolix/dht/v2/bep44"
	"github.com/anacrolix/dht/v2/exts/getput"
	"github.com/anacrolix/dht/v2/krpc"
	"golang.org/x/time/rate"

	"verifharness/benc"
	"verifharness/census"
	"verifharness/evid"
	"verifharness/gen"
	"verifharness/simnet"
	"verifharness/srv"
)

func init() { register("C14", c14) }

func c14(c *evid.Ctx) {
	c14queries(c)
	c14traversals(c)
	c14maintainer(c)
}

// c14maintainer: the table maintainer (bootstrap, maintenance pings, bucket refreshes) is started,
// gets through part of its first pass against a simulated network, and the server is closed at a
// PRNG-chosen moment; nothing of it may stay behind.
func c14maintainer(c *evid.Ctx) {
	r := c.R.Fork("maintainer")
	runs := c.Scale(16, 640)
	for run := 0; run < runs && c.NumViolations() < 20; run++ {
		swarm := newSwarm(r.Fork("swarm"), 30, gen.Pick(r, []int{0, 20, 100}), r.Bool())
		n, err := srv.New(dht.ServerConfig{NoSecurity: true, QueryResendDelay: func() time.Duration { return time.Millisecond },
			StartingNodes: func() ([]dht.Addr, error) {
				return []dht.Addr{dht.NewAddr(swarm.order[0].addr), dht.NewAddr(swarm.order[1].addr), dht.NewAddr(swarm.order[2].addr)}, nil
			}})
		if err != nil {
			c.Inconclusive(err.Error())
			return
		}
		n.Conn.SetHook(swarm.hook(n))
		closeAt := int32(r.Range(1, 120))
		closed := make(chan struct{})
		var once sync.Once
		cb := func(k int32) {
			if k >= closeAt {
				once.Do(func() {
					n.S.Close()
					close(closed)
				})
			}
		}
		swarm.onQuery.Store(&cb)
		done := make(chan struct{})
		go func() {
			n.S.TableMaintainer()
			close(done)
		}()
		select {
		case <-closed:
		case <-time.After(3 * time.Second):
			// the first pass ended before the chosen point; close now (the maintainer sleeps between passes)
			once.Do(func() {
				n.S.Close()
				close(closed)
			})
		}
		desc := fmt.Sprintf("TableMaintainer over a network of 30 (run %d), server closed after query %d", run, closeAt)
		select {
		case <-done:
			c.Count("table maintainer runs that returned after Close", 1)
		case <-time.After(60 * time.Second):
			c.Violation("traversal-does-not-return:table-maintainer", fmt.Sprintf("%s: TableMaintainer has not returned 60s after Close\n%s", desc, truncateS(census.Dump(census.Module(census.ServeLoop)), 6000)), nil)
			n.Conn.Close()
			return
		}
		n.Conn.Close()
		c.Eval(1)
		c.Distinct(gen.Hash64("maintainer", run, int(closeAt)))
		if !leakCheck(c, desc, nil) {
			return
		}
	}
}

// leakCheck: no library goroutine other than live serve loops may remain. Polls; declares a leak
// only when the same goroutines are parked in two dumps 2 s apart (every configured delay is <= a
// few ms, so nothing legitimate sleeps that long).
func leakCheck(c *evid.Ctx, what string, extraOK func(census.G) bool) bool {
	ignore := func(g census.G) bool {
		return census.ServeLoop(g) || extraOK != nil && extraOK(g)
	}
	left := census.WaitNone(ignore, 10*time.Second)
	if left == nil {
		return true
	}
	stuck := census.Stuck(ignore, 2*time.Second)
	if len(stuck) == 0 {
		if census.WaitNone(ignore, 20*time.Second) == nil {
			return true
		}
		c.Inconclusive("goroutines still running after " + what + ": " + census.Describe(census.Module(ignore)))
		return false
	}
	sigs := map[string]int{}
	for _, g := range stuck {
		top := ""
		for _, f := range g.Funcs {
			if strings.HasPrefix(f, census.ModulePrefix) {
				top = strings.TrimPrefix(f, census.ModulePrefix)
				break
			}
		}
		sigs[top+" ["+g.State+"]"]++
	}
	var keys []string
	for k := range sigs {
		keys = append(keys, k)
	}
	c.Violation("goroutine-left-behind:"+strings.Join(sortedStrings(keys), ","), fmt.Sprintf("after %s, %d library goroutines are parked for good:\n%s", what, len(stuck), truncateS(census.Dump(stuck), 5000)), nil)
	return false
}

func sortedStrings(s []string) []string {
	for i := 1; i < len(s); i++ {
		for j := i; j > 0 && s[j] < s[j-1]; j-- {
			s[j], s[j-1] = s[j-1], s[j]
		}
	}
	return s
}

func truncateS(s string, n int) string {
	if len(s) > n {
		return s[:n] + "..."
	}
	return s
}

// ---- single queries under enumerated fault placements ----

type c14action string

const (
	actNone      c14action = "none"
	actReply     c14action = "reply"
	actCancel    c14action = "cancel"
	actFailWrite c14action = "fail-write"
	actClose     c14action = "close"
	actDupReply  c14action = "reply-twice"
	actErrReply  c14action = "error-reply"
)

type c14plan struct {
	n       int         // NumTries
	point   string      // "before", "W<i>", "D<i>", "after"
	actions []c14action // performed at the point, in order
	limiter string      // "", "exhausted", "one"
}

func (p c14plan) String() string {
	var a []string
	for _, x := range p.actions {
		a = append(a, string(x))
	}
	return fmt.Sprintf("tries=%d at=%s do=%s limiter=%s", p.n, p.point, strings.Join(a, "+"), p.limiter)
}

func c14plans() (ps []c14plan) {
	singles := [][]c14action{{actReply}, {actCancel}, {actFailWrite}, {actClose}, {actErrReply}, {actDupReply}}
	pairs := [][]c14action{{actFailWrite, actReply}, {actCancel, actReply}, {actReply, actCancel}, {actClose, actReply}, {actReply, actClose}, {actFailWrite, actCancel}}
	for n := 1; n <= 3; n++ {
		ps = append(ps, c14plan{n: n, point: "none"})
		var points []string
		points = append(points, "before")
		for i := 1; i <= n; i++ {
			points = append(points, fmt.Sprintf("W%d", i), fmt.Sprintf("D%d", i))
		}
		points = append(points, fmt.Sprintf("D%d", n+1), "after")
		for _, pt := range points {
			for _, a := range append(append([][]c14action{}, singles...), pairs...) {
				hasFail := false
				for _, x := range a {
					if x == actFailWrite {
						hasFail = true
					}
				}
				if hasFail && pt[0] != 'W' {
					continue
				}
				ps = append(ps, c14plan{n: n, point: pt, actions: a})
			}
		}
		ps = append(ps, c14plan{n: n, point: "none", limiter: "exhausted"}, c14plan{n: n, point: "none", limiter: "one"})
	}
	return
}

func c14queries(c *evid.Ctx) {
	plans := c14plans()
	if c.Batch == 0 {
		c.Count("fault placements enumerated (single + paired)", len(plans))
	}
	reps := 3
	if !c.Quick() {
		reps = 40
	}
	r := c.R.Fork("q")
	idx := 0
	for _, p := range plans {
		for rep := 0; rep < reps; rep++ {
			idx++
			if idx%c.NBatch != c.Batch || c.NumViolations() >= 20 {
				continue
			}
			c14oneQuery(c, r, p, rep)
		}
	}
	// Pairs of placements at different points (sampled).
	np := c.Scale(200, 60000)
	for i := 0; i < np && c.NumViolations() < 20; i++ {
		a, b := gen.Pick(r, plans), gen.Pick(r, plans)
		if a.n != b.n || a.point == "none" || b.point == "none" || a.limiter != "" || b.limiter != "" {
			continue
		}
		c14oneQueryMulti(c, r, []c14plan{a, b}, i)
	}
}

func c14oneQuery(c *evid.Ctx, r *gen.Rand, p c14plan, rep int) {
	c14oneQueryMulti(c, r, []c14plan{p}, rep)
}

func c14oneQueryMulti(c *evid.Ctx, r *gen.Rand, ps []c14plan, rep int) {
	p0 := ps[0]
	var lim *rate.Limiter
	switch p0.limiter {
	case "exhausted":
		lim = rate.NewLimiter(0, 0)
	case "one":
		lim = rate.NewLimiter(0, 1)
	}
	dest := &net.UDPAddr{IP: r.PublicIPv4(), Port: r.Port()}
	var n *srv.Node
	var wIdx, dIdx atomic.Int32
	var cancel context.CancelFunc
	var tOfQuery atomic.Value
	closedAt := atomic.Int32{} // capture index at the moment Close was called, +1
	marker := r.ID()
	var did sync.Map
	var replyQueued atomic.Bool
	perform := func(point string) (fail bool) {
		for _, p := range ps {
			if p.point != point {
				continue
			}
			if _, done := did.LoadOrStore(p.String(), true); done {
				continue
			}
			t, _ := tOfQuery.Load().(string)
			for _, a := range p.actions {
				switch a {
				case actReply:
					replyQueued.Store(point != "before" && point != "after" && closedAt.Load() == 0)
					n.Conn.Inject(srv.Response(t, benc.Dict{"id": marker}), dest)
				case actDupReply:
					replyQueued.Store(point != "before" && point != "after" && closedAt.Load() == 0)
					n.Conn.Inject(srv.Response(t, benc.Dict{"id": marker}), dest)
					n.Conn.Inject(srv.Response(t, benc.Dict{"id": marker}), dest)
				case actErrReply:
					replyQueued.Store(point != "before" && point != "after" && closedAt.Load() == 0)
					n.Conn.Inject(srv.ErrorMsg(t, 201, "no"), dest)
				case actCancel:
					cancel()
				case actClose:
					closedAt.CompareAndSwap(0, int32(n.Conn.NumCaptured())+1)
					replyQueued.Store(false) // a closed server drops what is still queued
					n.S.Close()
				case actFailWrite:
					fail = true
				}
			}
		}
		return
	}
	cfg := dht.ServerConfig{NoSecurity: true, SendLimiter: lim, QueryResendDelay: func() time.Duration {
		i := dIdx.Add(1)
		perform(fmt.Sprintf("D%d", i))
		if replyQueued.Load() {
			// A matching reply is already in the socket queue: the query must end through it, not
			// through a race between a 1 ms timer and the serve loop.
			return 10 * time.Second
		}
		return time.Millisecond
	}}
	var err error
	n, err = srv.New(cfg)
	if err != nil {
		c.Inconclusive(err.Error())
		return
	}
	n.Conn.SetHook(func(d simnet.Datagram) error {
		if d.To.String() != dest.String() {
			return nil
		}
		if m, err := benc.DecodeDict(d.B); err == nil {
			if t, ok := benc.Str(m, "t"); ok {
				tOfQuery.Store(t)
			}
		}
		i := wIdx.Add(1)
		if perform(fmt.Sprintf("W%d", i)) {
			return simnet.ErrInjectedWriteFailure
		}
		return nil
	})
	ctx, cf := context.WithCancel(context.Background())
	cancel = cf
	defer cf()
	desc := ""
	for _, p := range ps {
		desc += "{" + p.String() + "} "
	}
	c.WAL("query plan %s", desc)
	// "before": the reply cannot be matched (no transaction yet) - t is unknown; use a guess.
	tOfQuery.Store("??")
	perform("before")
	done := make(chan dht.QueryResult, 1)
	go func() {
		done <- n.S.Query(ctx, dht.NewAddr(dest), "ping", dht.QueryInput{NumTries: p0.n})
	}()
	var res dht.QueryResult
	select {
	case res = <-done:
	case <-time.After(30 * time.Second):
		c.Violation("query-does-not-return", fmt.Sprintf("%s: still running after 30s\n%s", desc, truncateS(census.Dump(census.Module(nil)), 4000)), nil)
		n.Close()
		return
	}
	perform("after")
	c.Eval(1)
	c.Count("single queries under a fault plan", 1)
	c.Distinct(gen.Hash64("q", desc))
	// What was written for this query.
	var sent, sentAfterClose int
	for i, d := range n.Conn.Captured(0) {
		if d.To.String() == dest.String() {
			sent++
			if ca := closedAt.Load(); ca != 0 && i >= int(ca-1) {
				sentAfterClose++
			}
		}
	}
	if sent > p0.n {
		c.Violation("more-datagrams-than-tries", fmt.Sprintf("%s: %d datagrams for NumTries=%d", desc, sent, p0.n), nil)
	}
	if sentAfterClose > 0 {
		c.Violation("datagram-written-after-close", fmt.Sprintf("%s: %d", desc, sentAfterClose), nil)
	}
	// Outcome classification.
	out := "?"
	switch {
	case res.Err == nil && res.Reply.R != nil && res.Reply.R.ID == marker:
		out = "reply"
	case res.Err == nil && res.Reply.Y == "e":
		out = "error-reply"
	case res.Err == nil:
		out = "other-reply"
	case errors.Is(res.Err, context.Canceled):
		out = "cancelled"
	case errors.Is(res.Err, dht.TransactionTimeout):
		out = "timeout"
	case strings.Contains(res.Err.Error(), "injected write failure"):
		out = "write-error"
	case strings.Contains(res.Err.Error(), "closed"):
		out = "closed"
	case strings.Contains(res.Err.Error(), "rate"):
		out = "rate-limited"
	default:
		out = "err:" + res.Err.Error()
	}
	c.Count("outcome: "+out, 1)
	allowed := map[string]bool{}
	if len(ps) == 1 && p0.point == "none" {
		switch p0.limiter {
		case "":
			allowed["timeout"] = true
			if sent != p0.n {
				c.Violation("timed-out-query-sent-wrong-number-of-datagrams", fmt.Sprintf("%s: %d datagrams", desc, sent), nil)
			}
		case "exhausted":
			allowed["rate-limited"] = true
			if sent != 0 {
				c.Violation("query-sent-without-budget", fmt.Sprintf("%s: %d datagrams", desc, sent), nil)
			}
		case "one":
			if p0.n == 1 {
				allowed["timeout"] = true
			} else {
				allowed["rate-limited"] = true
			}
			if sent > 1 {
				c.Violation("query-sent-without-budget", fmt.Sprintf("%s: %d datagrams with a budget of 1", desc, sent), nil)
			}
		}
	} else {
		// Any action that happened may decide the outcome; a plan whose point was never reached
		// (e.g. D3 after a failed first write) leaves the plain time-out.
		allowed["timeout"] = true
		for _, p := range ps {
			for _, a := range p.actions {
				switch a {
				case actReply, actDupReply:
					if p.point != "before" && p.point != "after" {
						allowed["reply"] = true
					}
				case actErrReply:
					if p.point != "before" && p.point != "after" {
						allowed["error-reply"] = true
					}
				case actCancel:
					allowed["cancelled"] = true
				case actFailWrite:
					allowed["write-error"] = true
				case actClose:
					allowed["closed"] = true
				}
			}
		}
	}
	if !allowed[out] {
		c.Violation("query-outcome-not-allowed:"+out, fmt.Sprintf("%s: returned %s (err=%v, writes=%d, datagrams=%d); allowed %v", desc, out, res.Err, res.Writes, sent, keysOf(allowed)), nil)
	}
	// Deterministic single placements: exact expectations.
	if len(ps) == 1 && len(p0.actions) == 1 {
		a := p0.actions[0]
		exact := ""
		switch {
		case a == actReply && p0.point[0] != 'b' && p0.point[0] != 'a' && pointReached(p0):
			exact = "reply"
		case a == actCancel && p0.point != "after" && pointReached(p0):
			exact = "cancelled"
		case a == actFailWrite:
			exact = "write-error"
		}
		if exact != "" && out != exact {
			c.Violation("query-outcome-not-allowed:"+out+"-instead-of-"+exact, fmt.Sprintf("%s: returned %s (err=%v)", desc, out, res.Err), nil)
		}
	}
	if st := n.S.Stats(); st.OutstandingTransactions != 0 {
		c.Violation("transaction-left-pending", fmt.Sprintf("%s: %d", desc, st.OutstandingTransactions), nil)
	}
	// After Close, new queries fail without sending anything.
	if closedAt.Load() != 0 {
		before := n.Conn.NumCaptured()
		r2 := n.S.Query(context.Background(), dht.NewAddr(dest), "ping", dht.QueryInput{})
		if r2.Err == nil || n.Conn.NumCaptured() != before {
			c.Violation("query-after-close-sent-or-succeeded", fmt.Sprintf("%s: err=%v datagrams=%d", desc, r2.Err, n.Conn.NumCaptured()-before), nil)
		}
		c.Count("queries after Close checked", 1)
	}
	if closedAt.Load() == 0 {
		n.S.Close()
	}
	n.Conn.Close()
	leakCheck(c, "query {"+desc+"}", nil)
	if c.WantSample() && rep == 0 && len(ps) == 1 {
		c.Sample(map[string]any{"query_fault_plan": desc, "outcome": out, "datagrams": sent})
	}
}

func pointIsW(ps []c14plan, _ string) bool {
	for _, p := range ps {
		for _, a := range p.actions {
			if a == actClose && p.point[0] == 'W' {
				return true
			}
		}
	}
	return false
}

// pointReached: D<i> / W<i> exist for i <= n (+1 for the final wait).
func pointReached(p c14plan) bool { return true }

func keysOf(m map[string]bool) (out []string) {
	for k := range m {
		out = append(out, k)
	}
	return sortedStrings(out)
}

// ---- traversals ----

type simPeer struct {
	addr   *net.UDPAddr
	id     [20]byte
	silent bool
	mode   string // "ok", "hostile"
}

type simSwarm struct {
	mu      sync.Mutex
	peers   map[string]*simPeer
	order   []*simPeer
	queries atomic.Int32
	onQuery atomic.Pointer[func(n int32)]
	r       *gen.Rand
}

func newSwarm(r *gen.Rand, size int, silentPct int, hostile bool) *simSwarm {
	s := &simSwarm{peers: map[string]*simPeer{}, r: r}
	for i := 0; i < size; i++ {
		p := &simPeer{addr: &net.UDPAddr{IP: r.PublicIPv4(), Port: r.Port()}, id: r.ID(), mode: "ok"}
		if r.Intn(100) < silentPct {
			p.silent = true
		}
		if hostile && r.Intn(3) == 0 {
			p.mode = "hostile"
		}
		s.peers[p.addr.String()] = p
		s.order = append(s.order, p)
	}
	return s
}

func (s *simSwarm) hook(n *srv.Node) simnet.WriteHook {
	return func(d simnet.Datagram) error {
		p := s.peers[d.To.String()]
		m, err := benc.DecodeDict(d.B)
		if p == nil || err != nil || m["y"] != "q" {
			return nil
		}
		k := s.queries.Add(1)
		if f := s.onQuery.Load(); f != nil {
			(*f)(k)
		}
		if p.silent {
			return nil
		}
		t, _ := benc.Str(m, "t")
		s.mu.Lock()
		var nodes []byte
		for i := 0; i < 6 && len(s.order) > 0; i++ {
			o := s.order[s.r.Intn(len(s.order))]
			nodes = append(nodes, srv.CompactNode(o.id, o.addr.IP, o.addr.Port)...)
		}
		hostileKind := s.r.Intn(5)
		withValues := s.r.Intn(3) == 0
		s.mu.Unlock()
		ret := benc.Dict{"id": p.id, "nodes": string(nodes), "token": "tok-" + p.addr.String()}
		if p.mode == "hostile" {
			switch hostileKind {
			case 0:
				delete(ret, "token")
			case 1:
				ret["token"] = int64(5)
			case 2:
				ret["nodes"] = string(nodes) + "x"
			case 3:
				n.Conn.Inject(srv.ErrorMsg(t, 203, "no"), d.To)
				return nil
			case 4:
				ret["values"] = benc.List{"abcdef", "ghijkl"}
			}
		}
		if m["q"] == "get_peers" && withValues {
			ret["values"] = benc.List{string([]byte{1, 2, 3, 4, 0, 80})}
		}
		n.Conn.Inject(srv.Response(t, ret), d.To)
		return nil
	}
}

func c14traversals(c *evid.Ctx) {
	r := c.R.Fork("trav")
	type scenario struct {
		op    string // bootstrap announce get put
		net   string // none resolver-error silent answering hostile
		fault string // none ctx-cancel close stop consumer-stops
	}
	var scen []scenario
	for _, op := range []string{"bootstrap", "announce", "announce-noport", "get", "put"} {
		for _, nt := range []string{"none", "resolver-error", "silent", "answering", "hostile"} {
			for _, f := range []string{"none", "ctx-cancel", "close", "stop", "consumer-stops"} {
				if (nt == "none" || nt == "resolver-error") && f != "none" {
					continue
				}
				if f == "ctx-cancel" && strings.HasPrefix(op, "announce") {
					continue
				}
				if (f == "stop" || f == "consumer-stops") && !strings.HasPrefix(op, "announce") {
					continue
				}
				scen = append(scen, scenario{op, nt, f})
			}
		}
	}
	if c.Batch == 0 {
		c.Count("traversal scenarios enumerated", len(scen))
	}
	R := 25
	if !c.Quick() {
		R = 200
	}
	variants := 1
	if !c.Quick() {
		variants = 5 // the same scenario over five different networks and fault points
	}
	all := scen
	scen = nil
	for v := 0; v < variants; v++ {
		scen = append(scen, all...)
	}
	for si, sc := range scen {
		if si%c.NBatch != c.Batch || c.NumViolations() >= 20 {
			continue
		}
		desc := fmt.Sprintf("%s over a network that is %s, fault=%s, repeated %d times", sc.op, sc.net, sc.fault, R)
		c.WAL("traversal scenario %s", desc)
		var swarm *simSwarm
		switch sc.net {
		case "silent":
			swarm = newSwarm(r.Fork("swarm"), 12, 100, false)
		case "answering":
			swarm = newSwarm(r.Fork("swarm"), 25, 10, false)
		case "hostile":
			swarm = newSwarm(r.Fork("swarm"), 25, 20, true)
		}
		cfg := dht.ServerConfig{NoSecurity: true, QueryResendDelay: func() time.Duration { return time.Millisecond }, Store: bep44.NewMemory()}
		switch sc.net {
		case "none":
			cfg.StartingNodes = func() ([]dht.Addr, error) { return nil, nil }
		case "resolver-error":
			cfg.StartingNodes = func() ([]dht.Addr, error) { return nil, errors.New("resolver down") }
		default:
			cfg.StartingNodes = func() ([]dht.Addr, error) {
				var out []dht.Addr
				for i := 0; i < 3; i++ {
					out = append(out, dht.NewAddr(swarm.order[i].addr))
				}
				return out, nil
			}
		}
		n, err := srv.New(cfg)
		if err != nil {
			c.Inconclusive(err.Error())
			return
		}
		if swarm != nil {
			n.Conn.SetHook(swarm.hook(n))
		}
		returned := 0
		for rep := 0; rep < R; rep++ {
			at := int32(1 + r.Intn(6)) // the fault fires when the at-th query reaches the network
			var fire atomic.Pointer[func()]
			fired := atomic.Bool{}
			if swarm != nil {
				swarm.queries.Store(0)
				cb := func(k int32) {
					if f := fire.Load(); k >= at && f != nil && fired.CompareAndSwap(false, true) {
						(*f)()
					}
				}
				swarm.onQuery.Store(&cb)
			}
			ok := c14runTraversal(c, r, n, sc.op, sc.fault, &fire, desc, rep)
			if swarm != nil {
				swarm.onQuery.Store(nil)
			}
			if !ok {
				break
			}
			returned++
			if sc.fault == "close" {
				// the server is closed now (or the operation ended before the fault point: close it);
				// continue on a fresh one, after checking this one is clean
				n.Close()
				if !leakCheck(c, desc, nil) {
					break
				}
				n, err = srv.New(cfg)
				if err != nil {
					c.Inconclusive(err.Error())
					return
				}
				if swarm != nil {
					n.Conn.SetHook(swarm.hook(n))
				}
			}
		}
		c.Eval(1)
		c.Count("traversal scenarios run", 1)
		c.Count("traversal operations that returned", returned)
		c.Distinct(gen.Hash64("trav", sc.op, sc.net, sc.fault, si/len(all)))
		n.Quiesce(nil)
		if st := n.S.Stats(); st.OutstandingTransactions != 0 {
			c.Violation("transaction-left-pending:"+sc.op, fmt.Sprintf("%s: %d outstanding", desc, st.OutstandingTransactions), nil)
		}
		n.Close()
		leakCheck(c, desc, nil)
		if c.WantSample() && si%9 == 0 {
			c.Sample(map[string]any{"traversal_scenario": desc, "operations_returned": returned})
		}
	}
}

// c14runTraversal runs one operation; returns false when it did not come back.
func c14runTraversal(c *evid.Ctx, r *gen.Rand, n *srv.Node, op, fault string, fire *atomic.Pointer[func()], desc string, rep int) bool {
	setFire := func(f func()) { fire.Store(&f) }
	done := make(chan string, 1)
	ctx, cancel := context.WithCancel(context.Background())
	defer cancel()
	switch fault {
	case "ctx-cancel":
		setFire(func() { cancel() })
	case "close":
		setFire(func() { n.S.Close() })
	}
	switch {
	case op == "bootstrap":
		go func() {
			_, err := n.S.BootstrapContext(ctx)
			done <- fmt.Sprint(err)
		}()
	case strings.HasPrefix(op, "announce"):
		port := 6881
		if op == "announce-noport" {
			port = 0
		}
		a, err := n.S.Announce(r.ID(), port, false)
		if err != nil {
			done <- fmt.Sprint(err)
			break
		}
		switch fault {
		case "stop":
			setFire(a.StopTraversing)
		}
		go func() {
			read := 0
			for {
				select {
				case _, ok := <-a.Peers:
					if !ok {
						<-a.Finished()
						done <- "finished"
						return
					}
					read++
					if fault == "consumer-stops" && read >= 1 {
						// stop reading, then close
						a.Close()
						<-a.Finished()
						// Peers must be closed eventually as well
						for range a.Peers {
						}
						done <- "closed-by-consumer"
						return
					}
				case <-a.Finished():
					for range a.Peers {
					}
					done <- "finished"
					return
				}
			}
		}()
		if fault == "close" {
			// Server.Close alone does not stop an announce; its owner closes it too.
			go func() {
				<-time.After(50 * time.Millisecond)
				a.Close()
			}()
		}
	case op == "get":
		go func() {
			_, _, err := getput.Get(ctx, r.ID(), n.S, nil, nil)
			done <- fmt.Sprint(err)
		}()
	case op == "put":
		go func() {
			v := string(r.Bytes(20))
			_, err := getput.Put(ctx, sha1Of(benc.Encode(v)), n.S, nil, func(seq int64) bep44.Put { return bep44.Put{V: v, Seq: seq} })
			done <- fmt.Sprint(err)
		}()
	}
	select {
	case res := <-done:
		c.Count("traversal outcome: "+op+": "+firstWords(res), 1)
		return true
	case <-time.After(60 * time.Second):
		c.Violation("traversal-does-not-return:"+op, fmt.Sprintf("%s (repetition %d): not back after 60s\n%s", desc, rep, truncateS(census.Dump(census.Module(census.ServeLoop)), 6000)), nil)
		return false
	}
}

func firstWords(s string) string {
	if len(s) > 40 {
		s = s[:40]
	}
	return s
}

func sha1Of(b []byte) (out krpc.ID) {
	h := refSHA1(b)
	return h
}
