package main

import (
	"context"
	"fmt"
	"net"
	"path/filepath"
	"strings"
	"sync"
	"sync/atomic"
	"time"

	"github.com/anacrolix/dht/v2"
	"github.com/anacrolix/dht/v2/bep44"
	"github.com/anacrolix/dht/v2/exts/getput"
	"github.com/anacrolix/dht/v2/krpc"
	"github.com/anacrolix/torrent/bencode"
	peer_store "github.com/anacrolix/dht/v2/peer-store"

	"verifharness/benc"
	"verifharness/census"
	"verifharness/evid"
	"verifharness/gen"
	"verifharness/hostile"
	"verifharness/ref"
	"verifharness/simnet"
	"verifharness/srv"
	"verifharness/tbl"
)

func init() { register("C01", c01) }

type c01cfg struct {
	name      string
	peerStore bool
	security  bool
	passive   bool
	onQuery   string // "", "allow", "veto"
	state     string // empty populated stored
	blocklist bool   // an IP blocklist covering part of the source addresses is configured
}

func c01configs() (out []c01cfg) {
	for _, ps := range []bool{false, true} {
		for _, sec := range []bool{false, true} {
			for _, oq := range []string{"", "allow", "veto"} {
				for _, st := range []string{"empty", "populated", "stored"} {
					out = append(out, c01cfg{fmt.Sprintf("peerstore=%v security=%v onquery=%q state=%s", ps, sec, oq, st), ps, sec, false, oq, st, false})
				}
			}
		}
	}
	out = append(out, c01cfg{"passive peerstore=true state=populated", true, false, true, "", "populated", false}, c01cfg{"passive state=empty", false, false, true, "", "empty", false})
	out = append(out, c01cfg{"blocklist peerstore=true state=populated", true, false, false, "", "populated", true}, c01cfg{"blocklist security=true state=empty", false, true, false, "", "empty", true})
	return
}

// apiReturns calls the read-only public API under a watchdog; a wedged server lock shows here.
func apiReturns(c *evid.Ctx, n *srv.Node, desc string) bool {
	done := make(chan struct{})
	go func() {
		n.S.Stats()
		n.S.NumNodes()
		n.S.Nodes()
		var sb strings.Builder
		n.S.WriteStatus(&sb)
		close(done)
	}()
	select {
	case <-done:
		return true
	case <-time.After(30 * time.Second):
		gs := census.All()
		var locked []census.G
		for _, g := range gs {
			if g.Module && (strings.Contains(g.State, "Mutex") || g.State == "semacquire" || strings.Contains(g.State, "sync.")) {
				locked = append(locked, g)
			}
		}
		if len(locked) > 0 {
			c.Violation("server-lock-wedged", fmt.Sprintf("%s: Stats/NumNodes/Nodes/WriteStatus did not return in 30s; %d library goroutines wait on a lock:\n%s", desc, len(locked), truncateS(census.Dump(locked), 6000)), nil)
		} else {
			c.Inconclusive(desc + ": public API slow (no goroutine blocked on a lock)")
		}
		return false
	}
}

// probe: a well-formed ping from a fresh address must be answered (or, for passive/vetoing nodes,
// at least consumed by the serve loop).
func c01probe(c *evid.Ctx, n *srv.Node, cf c01cfg, alloc *gen.AddrAlloc, desc string) bool {
	from := alloc.V4()
	mark := n.Conn.NumCaptured()
	n.Conn.Inject(srv.Query("ping", "probe", benc.Dict{"id": [20]byte{7, 7, 7}}), from)
	deadline := time.Now().Add(30 * time.Second)
	for {
		if cf.passive || cf.onQuery == "veto" {
			if n.Conn.Drained() {
				return true
			}
		} else {
			for _, d := range n.Conn.Captured(mark) {
				if d.To.String() == from.String() {
					if m, err := benc.DecodeDict(d.B); err == nil && m["y"] == "r" && m["t"] == "probe" {
						return true
					}
				}
			}
		}
		if time.Now().After(deadline) {
			serve := 0
			for _, g := range census.All() {
				if g.Has("(*Server).serve") {
					serve++
				}
			}
			c.Violation("node-stopped-serving", fmt.Sprintf("%s: a well-formed ping from a fresh address got no answer within 30s (serve loops alive: %d)\n%s", desc, serve, truncateS(census.Dump(census.Module(nil)), 5000)), nil)
			return false
		}
		time.Sleep(100 * time.Microsecond)
	}
}

func c01(c *evid.Ctx) {
	r := c.R.Fork("c01")
	corpus := hostile.LoadCorpus(filepath.Join(repoDir(), "krpc/testdata/fuzz/Fuzz"))
	cfgs := c01configs()
	perCfg := c.Scale(40000, 1500000) / len(cfgs) * c.NBatch
	if perCfg < 50 {
		perCfg = 50
	}
	var alloc gen.AddrAlloc
	for ci, cf := range cfgs {
		if ci%c.NBatch != c.Batch || c.NumViolations() >= 20 {
			continue
		}
		c01inbound(c, r, cf, perCfg, corpus, &alloc)
	}
	ops := c.Scale(200, 8000)
	for i := 0; i < ops && c.NumViolations() < 20; i++ {
		c01hostileReplies(c, r, gen.Pick(r, cfgs), i, &alloc)
	}
	nm := c.Scale(16, 160)
	for i := 0; i < nm && c.NumViolations() < 20; i++ {
		c01maintainer(c, r, i, &alloc)
	}
}

func c01server(cf c01cfg, r *gen.Rand, extra func(*dht.ServerConfig)) (*srv.Node, error) {
	cfg := dht.ServerConfig{NoSecurity: !cf.security, Passive: cf.passive, Store: bep44.NewMemory()}
	if cf.security {
		cfg.PublicIP = r.PublicIPv4()
	}
	if cf.peerStore {
		cfg.PeerStore = &peer_store.InMemory{}
	}
	if cf.blocklist {
		bl := tbl.NewBlocklist()
		bl.AddNet16(55, 66)
		cfg.IPBlocklist = bl
	}
	switch cf.onQuery {
	case "allow":
		cfg.OnQuery = func(*krpc.Msg, net.Addr) bool { return true }
	case "veto":
		cfg.OnQuery = func(*krpc.Msg, net.Addr) bool { return false }
	}
	if extra != nil {
		extra(&cfg)
	}
	return srv.New(cfg)
}

func c01inbound(c *evid.Ctx, r *gen.Rand, cf c01cfg, count int, corpus [][]byte, alloc *gen.AddrAlloc) {
	n, err := c01server(cf, r, nil)
	if err != nil {
		c.Inconclusive(err.Error())
		return
	}
	defer n.Close()
	desc := "config " + cf.name
	c.WAL("=== %s", desc)
	g := &hostile.Gen{R: r.Fork("gen"), OwnID: n.S.ID(), Corpus: corpus, Costly: 1}
	// a fixed attacker host that holds a valid token
	attacker := alloc.V4()
	if !cf.passive && cf.onQuery != "veto" {
		if tok, err := n.Token(attacker, r.ID()); err == nil {
			g.Token = tok
		}
	}
	if cf.state != "empty" {
		// populate the table through traffic: queries from many nodes
		for i := 0; i < 40; i++ {
			n.Conn.Inject(srv.Query("ping", "pp", benc.Dict{"id": r.IDWithPrefix(n.S.ID(), r.Intn(6))}), alloc.V4())
		}
		n.Quiesce(nil)
	}
	if cf.state == "stored" && g.Token != "" {
		n.Ask(srv.Query("announce_peer", "st", benc.Dict{"id": r.ID(), "info_hash": [20]byte{1}, "port": int64(80), "token": g.Token}), attacker)
		n.Ask(srv.Query("put", "st", benc.Dict{"id": r.ID(), "v": "stored", "seq": int64(1), "token": g.Token}), attacker)
	}
	burst := 250
	for sent := 0; sent < count && c.NumViolations() < 20; {
		for i := 0; i < burst && sent < count; i++ {
			b, sig := g.Next()
			var from *net.UDPAddr
			pick := r.Intn(8)
			if g.Token != "" && r.Intn(8) == 0 {
				b, sig = g.Write()
				pick = 0
			}
			switch pick {
			case 0, 1, 2:
				from = &net.UDPAddr{IP: attacker.IP, Port: attacker.Port}
			case 3:
				from = alloc.V6()
			case 4:
				from = alloc.Mapped()
			case 5:
				from = &net.UDPAddr{IP: r.PublicIPv4(), Port: 0}
			case 6:
				from = alloc.V4()
				if cf.blocklist {
					from = &net.UDPAddr{IP: net.IP{55, 66, byte(r.Intn(256)), byte(1 + r.Intn(250))}, Port: r.Port()}
				}
			default:
				from = alloc.V4()
			}
			if len(b) <= 1500 {
				c.WAL("inject %q from %v", b, from)
			} else {
				c.WAL("inject [%d bytes, class %s] %q... from %v", len(b), sig, b[:200], from)
			}
			n.Conn.Inject(b, from)
			sent++
			c.Eval(1)
			if c.WantSample() && sent%997 == 1 && len(b) < 400 {
				c.Sample(map[string]any{"config": cf.name, "class": sig, "from": from.String(), "datagram": fmt.Sprintf("%q", b)})
			}
			if len(b) >= 2 && b[0] == 'd' {
				c.Distinct(gen.Hash64(cf.name, sig))
				c.Count("datagrams that passed the first-byte pre-check", 1)
				if len(b) < 4000 {
					// measurement only: how much of the stream gets past the decoder into the handlers
					var m krpc.Msg
					if err := bencode.Unmarshal(b, &m); err == nil {
						c.Count("datagrams that decode and reach dispatch", 1)
					}
				}
			} else {
				c.Count("datagrams rejected by the first-byte pre-check", 1)
			}
		}
		if err := n.Quiesce(nil); err != nil {
			// Not quiet: decide by what is stuck.
			if !apiReturns(c, n, desc) {
				return
			}
			c.Inconclusive(desc + ": " + truncateS(err.Error(), 600))
			return
		}
		if !apiReturns(c, n, desc) || !c01probe(c, n, cf, alloc, desc) {
			return
		}
		c.Count("bursts followed by API + probe-ping check", 1)
		n.Conn.ResetCapture()
	}
	c.Count("server configurations flooded", 1)
}

// c01hostileReplies runs one of the node's own operations against peers that answer every query
// with the right address and transaction ID and hostile content.
func c01hostileReplies(c *evid.Ctx, r *gen.Rand, cf c01cfg, i int, alloc *gen.AddrAlloc) {
	var n *srv.Node
	g := &hostile.Gen{R: r.Fork("replies")}
	var budget atomic.Int32
	budget.Store(int32(r.Range(5, 120)))
	var gmu sync.Mutex
	peersV4 := func() string {
		var b []byte
		for k := 0; k < r.Intn(9); k++ {
			b = append(b, srv.CompactNode(r.ID(), r.PublicIPv4(), r.Port())...)
		}
		return string(b)
	}
	start := []*net.UDPAddr{alloc.V4(), alloc.V4(), alloc.V6()}
	n, err := c01server(cf, r, func(cfg *dht.ServerConfig) {
		cfg.StartingNodes = func() ([]dht.Addr, error) {
			var out []dht.Addr
			for _, s := range start {
				out = append(out, dht.NewAddr(s))
			}
			return out, nil
		}
		cfg.QueryResendDelay = func() time.Duration { return 2 * time.Millisecond }
	})
	if err != nil {
		c.Inconclusive(err.Error())
		return
	}
	defer n.Close()
	g.OwnID = n.S.ID()
	n.Conn.SetHook(func(d simnet.Datagram) error {
		m, err := benc.DecodeDict(d.B)
		if err != nil || m["y"] != "q" {
			return nil
		}
		if budget.Add(-1) < 0 {
			return nil // silence: lets every traversal end
		}
		t, _ := benc.Str(m, "t")
		gmu.Lock()
		rep, sig := g.Reply(t, peersV4(), "")
		if g.R.Intn(6) == 0 {
			rep, _ = g.Mutate(rep)
			sig = "mutated:" + sig
		}
		gmu.Unlock()
		c.WAL("reply to %v %q: %q", d.To, m["q"], rep)
		c.Count("hostile replies injected", 1)
		c.Distinct(gen.Hash64("reply", fmt.Sprint(m["q"]), sig))
		n.Conn.Inject(rep, d.To)
		return nil
	})
	op := gen.Pick(r, []string{"bootstrap", "announce", "announce-scrape", "get-immutable", "get-mutable", "get-mutable", "put", "ping", "findnode", "getpeers"})
	desc := fmt.Sprintf("operation %s under hostile replies, config %s", op, cf.name)
	c.WAL("=== %s", desc)
	done := make(chan struct{})
	ctx, cancel := context.WithTimeout(context.Background(), 40*time.Second)
	defer cancel()
	pub, _ := edKey(r)
	salt := r.Bytes(r.Intn(8))
	gmu.Lock()
	g.K = pub
	gmu.Unlock()
	go func() {
		defer close(done)
		switch op {
		case "bootstrap":
			n.S.BootstrapContext(ctx)
		case "announce", "announce-scrape":
			var opts []dht.AnnounceOpt
			if op == "announce-scrape" {
				opts = append(opts, dht.Scrape())
			}
			a, err := n.S.Announce(r.ID(), 6881, r.Bool(), opts...)
			if err != nil {
				return
			}
			go func() {
				<-ctx.Done()
				a.Close()
			}()
			for range a.Peers {
			}
			<-a.Finished()
		case "get-immutable":
			getput.Get(ctx, r.ID(), n.S, nil, nil)
		case "get-mutable":
			getput.Get(ctx, ref.SHA1(pub, salt), n.S, nil, salt)
		case "put":
			v := string(r.Bytes(10))
			getput.Put(ctx, sha1Of(benc.Encode(v)), n.S, nil, func(seq int64) bep44.Put { return bep44.Put{V: v, Seq: seq} })
		case "ping":
			for k := 0; k < 6; k++ {
				n.S.Ping(start[k%len(start)])
			}
		case "findnode":
			n.S.FindNode(dht.NewAddr(start[0]), krpcInt(r.ID()), dht.QueryRateLimiting{})
		case "getpeers":
			n.S.GetPeers(ctx, dht.NewAddr(start[0]), krpcInt(r.ID()), r.Bool(), dht.QueryRateLimiting{})
		}
	}()
	select {
	case <-done:
	case <-time.After(60 * time.Second):
		c.Violation("operation-wedged-by-hostile-replies:"+op, fmt.Sprintf("%s: not back after 60s\n%s", desc, truncateS(census.Dump(census.Module(census.ServeLoop)), 6000)), nil)
		return
	}
	c.Eval(1)
	c.Count("operations run under hostile replies: "+op, 1)
	n.Quiesce(nil)
	if !apiReturns(c, n, desc) {
		return
	}
	c01probe(c, n, cf, alloc, desc)
}

// c01maintainer: the table maintainer (bootstrap, questionable pings, bucket refresh) runs while
// hostile datagrams and hostile replies arrive.
func c01maintainer(c *evid.Ctx, r *gen.Rand, i int, alloc *gen.AddrAlloc) {
	cf := c01cfg{name: "table maintainer running, peerstore=true", peerStore: true}
	g := &hostile.Gen{R: r.Fork("maint")}
	var gmu sync.Mutex
	start := []*net.UDPAddr{alloc.V4(), alloc.V4()}
	var budget atomic.Int32
	budget.Store(400)
	var n *srv.Node
	n, err := c01server(cf, r, func(cfg *dht.ServerConfig) {
		cfg.StartingNodes = func() ([]dht.Addr, error) {
			return []dht.Addr{dht.NewAddr(start[0]), dht.NewAddr(start[1])}, nil
		}
		cfg.QueryResendDelay = func() time.Duration { return time.Millisecond }
	})
	if err != nil {
		c.Inconclusive(err.Error())
		return
	}
	defer n.Close()
	desc := "table maintainer + flood"
	c.WAL("=== %s %d", desc, i)
	root := n.S.ID()
	n.Conn.SetHook(func(d simnet.Datagram) error {
		m, err := benc.DecodeDict(d.B)
		if err != nil || m["y"] != "q" || budget.Add(-1) < 0 {
			return nil
		}
		t, _ := benc.Str(m, "t")
		gmu.Lock()
		// mostly well-formed answers so that the table fills and bucket refreshes have work to do
		var nodes []byte
		for k := 0; k < 8; k++ {
			nodes = append(nodes, srv.CompactNode(g.R.IDWithPrefix(root, g.R.Intn(8)), g.R.PublicIPv4(), g.R.Port())...)
		}
		rep := srv.Response(t, benc.Dict{"id": g.R.IDWithPrefix(root, g.R.Intn(8)), "nodes": string(nodes)})
		if g.R.Intn(4) == 0 {
			rep, _ = g.Reply(t, string(nodes), "")
		}
		gmu.Unlock()
		n.Conn.Inject(rep, d.To)
		return nil
	})
	go n.S.TableMaintainer()
	fl := &hostile.Gen{R: r.Fork("flood"), OwnID: root}
	for k := 0; k < 1500; k++ {
		b, _ := fl.Next()
		if len(b) > 3000 {
			continue
		}
		if k%3 == 0 {
			b = srv.Query("ping", "m", benc.Dict{"id": r.IDWithPrefix(root, r.Intn(8))})
		}
		c.WAL("maint inject %q", truncBytes(b))
		n.Conn.Inject(b, alloc.V4())
		c.Eval(1)
		if k%100 == 0 {
			time.Sleep(200 * time.Microsecond)
		}
	}
	c.Count("datagrams injected while the table maintainer runs", 1500)
	c.Distinct(gen.Hash64("maint", i))
	// The maintainer sleeps a minute between passes; wait for the flood and the first pass to settle.
	deadline := time.Now().Add(40 * time.Second)
	for !n.Conn.Drained() && time.Now().Before(deadline) {
		time.Sleep(time.Millisecond)
	}
	if !apiReturns(c, n, desc) {
		return
	}
	if c01probe(c, n, cf, alloc, desc) {
		c.Count("table-maintainer scenarios survived", 1)
	}
}
