package main

import (
	"bytes"
	"fmt"
	"sync"

	"github.com/anacrolix/dht/v2/krpc"
	"github.com/anacrolix/torrent/bencode"

	"verifharness/evid"
	"verifharness/gen"
)

// c15pipeline: "decoding the result of an encode yields the same value" must not depend on the result
// being decoded before the next encode. Every exported encoder of the krpc package is called in
// batches; each returned slice is kept (with a private copy taken at return) and only checked after the
// rest of the batch has been encoded, sequentially and from several goroutines at once.
type encJob struct {
	kind string
	run  func() ([]byte, error)
	// back decodes b and reports whether it equals the value that was encoded.
	back func(b []byte) (bool, string)
}

func c15jobs(r *gen.Rand) []encJob {
	var jobs []encJob
	n := r.Range(2, 12)
	for i := 0; i < n; i++ {
		switch r.Intn(8) {
		case 0, 1:
			fam := []int{4, 6}[r.Intn(2)]
			ni := krpc.NodeInfo{ID: r.ID(), Addr: krpc.NodeAddr{IP: genIP(r, fam), Port: r.Intn(65536)}}
			jobs = append(jobs, encJob{"NodeInfo.MarshalBinary", func() ([]byte, error) { return ni.MarshalBinary() }, func(b []byte) (bool, string) {
				var d krpc.NodeInfo
				if err := d.UnmarshalBinary(b); err != nil {
					return false, err.Error()
				}
				return d.ID == ni.ID && d.Addr.Port == ni.Addr.Port && normIP(d.Addr.IP).Equal(normIP(ni.Addr.IP)), fmt.Sprintf("%v vs %v", d, ni)
			}})
		case 2:
			fam := []int{4, 6}[r.Intn(2)]
			na := krpc.NodeAddr{IP: genIP(r, fam), Port: r.Intn(65536)}
			if r.Bool() {
				jobs = append(jobs, encJob{"NodeAddr.MarshalBinary", func() ([]byte, error) { return na.MarshalBinary() }, func(b []byte) (bool, string) {
					var d krpc.NodeAddr
					if err := d.UnmarshalBinary(b); err != nil {
						return false, err.Error()
					}
					return d.Port == na.Port && normIP(d.IP).Equal(normIP(na.IP)), fmt.Sprintf("%v vs %v", d, na)
				}})
			} else {
				jobs = append(jobs, encJob{"NodeAddr.MarshalBencode", func() ([]byte, error) { return na.MarshalBencode() }, func(b []byte) (bool, string) {
					var d krpc.NodeAddr
					if err := d.UnmarshalBencode(b); err != nil {
						return false, err.Error()
					}
					return d.Port == na.Port && normIP(d.IP).Equal(normIP(na.IP)), fmt.Sprintf("%v vs %v", d, na)
				}})
			}
		case 3:
			id := krpc.ID(r.ID())
			jobs = append(jobs, encJob{"ID.MarshalBencode", func() ([]byte, error) { return id.MarshalBencode() }, func(b []byte) (bool, string) {
				var d krpc.ID
				if err := d.UnmarshalBencode(b); err != nil {
					return false, err.Error()
				}
				return d == id, fmt.Sprintf("%x vs %x", d, id)
			}})
		case 4:
			k := r.Range(1, 9)
			l4 := make(krpc.CompactIPv4NodeInfo, k)
			for j := range l4 {
				l4[j] = krpc.NodeInfo{ID: r.ID(), Addr: krpc.NodeAddr{IP: genIP(r, 4), Port: r.Intn(65536)}}
			}
			enc := func() ([]byte, error) { return l4.MarshalBinary() }
			kind := "CompactIPv4NodeInfo.MarshalBinary"
			if r.Bool() {
				enc = func() ([]byte, error) { return l4.MarshalBencode() }
				kind = "CompactIPv4NodeInfo.MarshalBencode"
			}
			jobs = append(jobs, encJob{kind, enc, func(b []byte) (bool, string) {
				var d krpc.CompactIPv4NodeInfo
				var err error
				if kind[len(kind)-6:] == "Binary" {
					err = d.UnmarshalBinary(b)
				} else {
					err = d.UnmarshalBencode(b)
				}
				if err != nil || len(d) != len(l4) {
					return false, fmt.Sprintf("err=%v len %d vs %d", err, len(d), len(l4))
				}
				for j := range d {
					if d[j].ID != l4[j].ID || d[j].Addr.Port != l4[j].Addr.Port || !normIP(d[j].Addr.IP).Equal(normIP(l4[j].Addr.IP)) {
						return false, fmt.Sprintf("entry %d: %v vs %v", j, d[j], l4[j])
					}
				}
				return true, ""
			}})
		case 5:
			k := r.Range(1, 9)
			l6 := make(krpc.CompactIPv6NodeAddrs, k)
			for j := range l6 {
				l6[j] = krpc.NodeAddr{IP: genIP(r, 6), Port: r.Intn(65536)}
			}
			jobs = append(jobs, encJob{"CompactIPv6NodeAddrs.MarshalBinary", func() ([]byte, error) { return l6.MarshalBinary() }, func(b []byte) (bool, string) {
				var d krpc.CompactIPv6NodeAddrs
				if err := d.UnmarshalBinary(b); err != nil || len(d) != len(l6) {
					return false, fmt.Sprintf("err=%v len %d vs %d", err, len(d), len(l6))
				}
				for j := range d {
					if d[j].Port != l6[j].Port || !d[j].IP.Equal(l6[j].IP) {
						return false, fmt.Sprintf("entry %d: %v vs %v", j, d[j], l6[j])
					}
				}
				return true, ""
			}})
		case 6:
			e := krpc.Error{Code: r.Intn(1000), Msg: fmt.Sprintf("m%x", r.Bytes(r.Intn(12)))}
			jobs = append(jobs, encJob{"Error.MarshalBencode", func() ([]byte, error) { return e.MarshalBencode() }, func(b []byte) (bool, string) {
				var d krpc.Error
				if err := d.UnmarshalBencode(b); err != nil {
					return false, err.Error()
				}
				return d == e, fmt.Sprintf("%v vs %v", d, e)
			}})
		default:
			m, _ := genMsg(r)
			want, werr := bencode.Marshal(m)
			jobs = append(jobs, encJob{"bencode.Marshal(Msg)", func() ([]byte, error) { return bencode.Marshal(m) }, func(b []byte) (bool, string) {
				// the same message encoded on its own, before the batch, gave `want`
				return werr == nil && bytes.Equal(b, want), fmt.Sprintf("%q vs %q", truncBytes(b), truncBytes(want))
			}})
		}
	}
	return jobs
}

func c15pipeline(c *evid.Ctx) {
	r := c.R.Fork("pipeline")
	batches := c.Scale(4000, 60000)
	type res struct {
		got, copyAtReturn []byte
		err               error
		p                 any
	}
	for bi := 0; bi < batches; bi++ {
		jobs := c15jobs(r)
		out := make([]res, len(jobs))
		encode := func(i int) {
			defer func() {
				if p := recover(); p != nil {
					out[i].p = p
				}
			}()
			b, err := jobs[i].run()
			out[i].got, out[i].err = b, err
			out[i].copyAtReturn = append([]byte(nil), b...)
		}
		concurrent := bi%4 == 3
		if concurrent {
			var wg sync.WaitGroup
			for i := range jobs {
				wg.Add(1)
				go func(i int) { defer wg.Done(); encode(i) }(i)
			}
			wg.Wait()
			c.Count("encode batches run from concurrent goroutines", 1)
		} else {
			for i := range jobs {
				encode(i)
			}
			c.Count("encode batches run back to back", 1)
		}
		for i, j := range jobs {
			c.Eval(1)
			c.Count("encode results checked after later encodes:"+j.kind, 1)
			c.Distinct(gen.Hash64("pipe", j.kind, i, len(jobs), concurrent))
			o := out[i]
			if o.p != nil {
				c.Violation("encode-panics:"+j.kind, fmt.Sprintf("%v", o.p), nil)
				continue
			}
			if o.err != nil {
				c.Violation("encode-fails-on-well-formed-value:"+j.kind, o.err.Error(), nil)
				continue
			}
			if !bytes.Equal(o.got, o.copyAtReturn) {
				c.Violation("encoded-bytes-change-under-a-later-encode:"+j.kind,
					fmt.Sprintf("job %d of %d (concurrent=%v): returned %x, after the rest of the batch the same slice reads %x", i, len(jobs), concurrent, o.copyAtReturn, o.got), nil)
				continue
			}
			if ok, why := j.back(o.got); !ok {
				c.Violation("decoding-a-kept-encoding-gives-another-value:"+j.kind, fmt.Sprintf("job %d of %d (concurrent=%v): %s", i, len(jobs), concurrent, why), nil)
			}
		}
	}
	c.Floor("encode batches run back to back", 100)
	c.Floor("encode batches run from concurrent goroutines", 30)
}
