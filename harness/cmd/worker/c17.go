package main

import (
	"fmt"
	"net"

	"github.com/anacrolix/dht/v2"
	"github.com/anacrolix/dht/v2/krpc"

	"verifharness/evid"
	"verifharness/gen"
	"verifharness/ref"
	"verifharness/simnet"
)

func init() { register("C17", c17) }

// C17 — BEP 42 exactly as specified. Differential run of SecureNodeId / NodeIdSecure against an
// independent bitwise implementation (ref.Bep42*), self-checked against the BEP 42 vectors.
func c17(c *evid.Ctx) {
	if !c17selfcheck(c) {
		return
	}
	c17v4(c)
	c17v6(c)
	c17exempt(c)
	c17config(c)
}

func hexid(id [20]byte) string { return fmt.Sprintf("%x", id[:]) }

func c17selfcheck(c *evid.Ctx) bool {
	// The five vectors of BEP 42 (first 21 bits and last byte matter).
	vec := []struct {
		ip   string
		r    byte
		p0   byte
		p1   byte
		p2hi byte
	}{
		{"124.31.75.21", 1, 0x5f, 0xbf, 0xb8},
		{"21.75.31.124", 86, 0x5a, 0x3c, 0xe8},
		{"65.23.51.170", 22, 0xa5, 0xd4, 0x30},
		{"84.124.73.14", 65, 0x1b, 0x03, 0x20},
		{"43.213.53.83", 90, 0xe5, 0x6f, 0x68},
	}
	for _, v := range vec {
		p := ref.Bep42Prefix(net.ParseIP(v.ip).To4(), v.r)
		if p[0] != v.p0 || p[1] != v.p1 || p[2] != v.p2hi&0xf8 {
			c.Inconclusive(fmt.Sprintf("reference BEP 42 implementation fails spec vector %s: got %x", v.ip, p))
			return false
		}
	}
	c.Count("reference_selfcheck_vectors", len(vec))
	return true
}

type c17case struct {
	IP     string `json:"ip"`
	ID     string `json:"id"`
	Seed   int    `json:"seed_bits"`
	Out    string `json:"secured"`
	Expect string `json:"reference"`
}

// checkPair runs every law for one (ip, id) on a non-exempt address.
func c17checkPair(c *evid.Ctx, r *gen.Rand, ip net.IP, id [20]byte, flips bool, what string) {
	c.Eval(1)
	out := krpc.ID(id)
	dht.SecureNodeId(&out, ip)
	want := ref.Bep42Secure(id, ip)
	rp := c17case{IP: ip.String(), ID: hexid(id), Seed: int(id[19] & 7), Out: hexid(out), Expect: hexid(want)}
	if c.WantSample() {
		c.Sample(rp)
	}
	if [20]byte(out) != want {
		c.Violation("securing-differs-from-reference:"+what, fmt.Sprintf("SecureNodeId(%x, %v) = %x, BEP 42 reference = %x", id, ip, out, want), rp)
		return
	}
	if out[2]&7 != id[2]&7 || [17]byte(out[3:]) != [17]byte(id[3:]) {
		c.Violation("securing-touches-bits-beyond-21:"+what, fmt.Sprintf("id %x -> %x for %v", id, out, ip), rp)
	}
	again := out
	dht.SecureNodeId(&again, ip)
	if again != out {
		c.Violation("securing-not-idempotent:"+what, fmt.Sprintf("%x -> %x -> %x for %v", id, out, again, ip), rp)
	}
	if !dht.NodeIdSecure(out, ip) {
		c.Violation("secured-id-does-not-verify:"+what, fmt.Sprintf("NodeIdSecure(%x, %v) = false", out, ip), rp)
	}
	// Agreement of the verifier with the reference on an unrelated ID (almost always "false") and
	// on the same ID with other seed bits.
	other := r.ID()
	if got, exp := dht.NodeIdSecure(other, ip), ref.Bep42Valid(other, ip); got != exp {
		c.Violation("verify-differs-from-reference:"+what, fmt.Sprintf("NodeIdSecure(%x, %v) = %v, reference %v", other, ip, got, exp), rp)
	}
	reseed := out
	reseed[19] ^= byte(1 + r.Intn(7))
	if got, exp := dht.NodeIdSecure(reseed, ip), ref.Bep42Valid(reseed, ip); got != exp {
		c.Violation("verify-differs-from-reference-reseed:"+what, fmt.Sprintf("NodeIdSecure(%x, %v) = %v, reference %v", reseed, ip, got, exp), rp)
	}
	if flips {
		for b := 0; b < 21; b++ {
			f := [20]byte(out)
			gen.SetBit(&f, b, !gen.GetBit(f, b))
			c.Count("single_bit_flip_checks", 1)
			if dht.NodeIdSecure(f, ip) {
				c.Violation("flipped-prefix-bit-still-verifies:"+what, fmt.Sprintf("bit %d of %x flipped still verifies for %v", b, out, ip), rp)
				break
			}
		}
		// A bit outside the 21 must not matter.
		f := [20]byte(out)
		b := 21 + r.Intn(160-21-3) // not the three seed bits at the very end
		gen.SetBit(&f, b, !gen.GetBit(f, b))
		if !dht.NodeIdSecure(f, ip) {
			c.Violation("bit-beyond-21-affects-verification:"+what, fmt.Sprintf("bit %d of %x flipped stops verifying for %v", b, out, ip), rp)
		}
	}
}

func c17v4(c *evid.Ctx) {
	r := c.R.Fork("v4")
	const space = 1 << 23 // 20 masked bits x 3 seed bits
	lo := space / c.NBatch * c.Batch
	hi := space / c.NBatch * (c.Batch + 1)
	if c.Batch == c.NBatch-1 {
		hi = space
	}
	step := 1
	if c.Quick() {
		step = 32
	}
	// In quick mode stratify: a different residue class per seed so that over the shards every
	// value of each mask byte and every seed still occurs.
	off := 0
	if step > 1 {
		off = int(c.Seed % uint64(step))
	}
	n := 0
	for k := lo + off; k < hi; k += step {
		seed := byte(k & 7)
		m := k >> 3
		b0, b1, b2, b3 := byte(m&3), byte(m>>2&0xf), byte(m>>6&0x3f), byte(m>>12&0xff)
		var ip net.IP
		for {
			u := r.U64()
			ip = net.IP{b0 | byte(u)&0xfc, b1 | byte(u>>8)&0xf0, b2 | byte(u>>16)&0xc0, b3}
			if !ref.Bep42Exempt(ip) {
				break
			}
		}
		id := r.ID()
		id[19] = id[19]&0xf8 | seed
		flips := k%16 == 0 || step > 1 && n%4 == 0
		c17checkPair(c, r, ip, id, flips, "ipv4")
		if n%8 == 0 {
			c17checkPair(c, r, gen.V4Mapped(ip), id, false, "ipv4-mapped")
			c.Count("cases_ipv4_mapped", 1)
		}
		c.Distinct(gen.Hash64("v4", k))
		n++
	}
	c.Count("cases_ipv4_maskbits_x_seed", n)
	if !c.Quick() {
		c.SetExhaustive(true)
	}
}

func c17v6(c *evid.Ctx) {
	r := c.R.Fork("v6")
	n := c.Scale(1<<16, 1<<23)
	for i := 0; i < n; i++ {
		ip := make(net.IP, 16)
		copy(ip, r.Bytes(16))
		switch i % 4 {
		case 1:
			// Structured: only bits around one mask-byte boundary set.
			for j := range ip {
				ip[j] = 0
			}
			j := r.Intn(9)
			if j < 8 {
				ip[j] = byte(r.U64())
			} else {
				ip[8] = byte(r.U64()) // first byte outside the mask: must not matter
			}
			ip[0] |= 0x20
		case 2:
			ip[0] = 0x20 | ip[0]&0x1f
		}
		if _, v4 := isMapped(ip); v4 || ref.Bep42Exempt(ip) {
			continue
		}
		id := r.ID()
		c17checkPair(c, r, ip, id, i%16 == 0, "ipv6")
		c.Distinct(gen.Hash64("v6", []byte(ip[:8]), int(id[19]&7)))
		c.Count("cases_ipv6", 1)
		// Bytes 8..15 are outside the mask: changing them must not change the outcome.
		if i%8 == 0 {
			ip2 := append(net.IP(nil), ip...)
			copy(ip2[8:], r.Bytes(8))
			a, b := krpc.ID(id), krpc.ID(id)
			dht.SecureNodeId(&a, ip)
			dht.SecureNodeId(&b, ip2)
			if a != b {
				c.Violation("ipv6-low-64-bits-affect-id", fmt.Sprintf("%v vs %v: %x vs %x", ip, ip2, a, b), nil)
			}
		}
	}
}

func isMapped(ip net.IP) (net.IP, bool) {
	if len(ip) == 16 {
		for i := 0; i < 10; i++ {
			if ip[i] != 0 {
				return nil, false
			}
		}
		if ip[10] == 0xff && ip[11] == 0xff {
			return ip[12:], true
		}
	}
	return nil, false
}

func c17exempt(c *evid.Ctx) {
	r := c.R.Fork("exempt")
	n := c.Scale(4000, 200000)
	for i := 0; i < n; i++ {
		u := r.Bytes(4)
		var ip net.IP
		switch i % 7 {
		case 0:
			ip = net.IP{10, u[1], u[2], u[3]}
		case 1:
			ip = net.IP{172, 16 | u[1]&0x0f, u[2], u[3]}
		case 2:
			ip = net.IP{192, 168, u[2], u[3]}
		case 3:
			ip = net.IP{169, 254, u[2], u[3]}
		case 4:
			ip = net.IP{127, u[1], u[2], u[3]}
		case 5:
			ip = net.ParseIP("::1")
		case 6:
			ip = make(net.IP, 16)
			copy(ip, r.Bytes(16))
			ip[0], ip[1] = 0xfe, 0x80|ip[1]&0x3f
		}
		if len(ip) == 4 && r.Bool() {
			ip = gen.V4Mapped(ip)
		}
		id := r.ID()
		c.Eval(1)
		c.Count("cases_exempt", 1)
		c.Distinct(gen.Hash64("exempt", []byte(ip), i%7))
		if !dht.NodeIdSecure(id, ip) {
			c.Violation("exempt-address-rejected", fmt.Sprintf("NodeIdSecure(%x, %v) = false for a private/loopback/link-local address", id, ip), nil)
		}
		if !ref.Bep42Exempt(ip) {
			c.Inconclusive("generator produced a non-exempt address in the exempt test: " + ip.String())
		}
	}
	// Boundaries just outside the exempt ranges must be subject to verification like any other.
	for _, s := range []string{"9.255.255.255", "11.0.0.0", "172.15.255.255", "172.32.0.0", "192.167.255.255", "192.169.0.0",
		"169.253.255.255", "169.255.0.0", "126.255.255.255", "128.0.0.0"} {
		ip := net.ParseIP(s).To4()
		for j := 0; j < 64; j++ {
			c17checkPair(c, r, ip, r.ID(), true, "ipv4-exempt-boundary")
		}
		c.Count("cases_exempt_boundary", 64)
	}
}

func c17config(c *evid.Ctx) {
	r := c.R.Fork("config")
	n := c.Scale(200, 5000)
	for i := 0; i < n; i++ {
		var pub net.IP
		switch i % 3 {
		case 0:
			pub = r.PublicIPv4()
		case 1:
			pub = r.PublicIPv6()
		case 2:
			pub = gen.V4Mapped(r.PublicIPv4())
		}
		if r.Intn(3) == 0 {
			// Addresses at the edge of "public": every range the verifier exempts, and ranges that
			// look local but are not exempt (the ID must then verify like for any other address).
			pub = c17edgeIP(r, r.Intn(18))
			c.Count("cases_config:PublicIP from an exempt or look-alike range", 1)
		}
		noSec := (i/6)%2 == 0
		c.Eval(1)
		c.Distinct(gen.Hash64("config", []byte(pub), noSec, i%6))
		var got krpc.ID
		var how string
		switch i % 6 {
		case 5:
			// No socket supplied: NewServer opens one itself (loopback UDP, no traffic is sent).
			how = "NewServer(no Conn)"
			s, err := dht.NewServer(&dht.ServerConfig{PublicIP: pub, NoSecurity: noSec,
				StartingNodes: func() ([]dht.Addr, error) { return nil, nil }})
			if err != nil {
				c.Inconclusive("NewServer without Conn: " + err.Error())
				continue
			}
			got = s.ID()
			s.Close()
		case 0, 1, 2:
			how = "NewServer"
			conn := simnet.NewConn(&net.UDPAddr{IP: net.IP{198, 51, 100, 7}, Port: 1000 + i})
			s, err := dht.NewServer(&dht.ServerConfig{Conn: conn, PublicIP: pub, NoSecurity: noSec,
				StartingNodes: func() ([]dht.Addr, error) { return nil, nil }})
			if err != nil {
				c.Inconclusive("NewServer: " + err.Error())
				continue
			}
			got = s.ID()
			s.Close()
			conn.Close()
		case 3:
			how = "InitNodeId(Conn set)"
			conn := simnet.NewConn(&net.UDPAddr{IP: net.IP{198, 51, 100, 7}, Port: 1000 + i})
			cfg := dht.ServerConfig{Conn: conn, PublicIP: pub, NoSecurity: noSec}
			cfg.InitNodeId()
			got = cfg.NodeId
		case 4:
			how = "MakeDeterministicNodeID"
			got = dht.MakeDeterministicNodeID(&net.UDPAddr{IP: pub, Port: r.Port()})
		}
		c.Count("cases_config:"+how, 1)
		if !ref.Bep42Valid(got, pub) {
			c.Violation("self-generated-id-not-valid-for-public-ip:"+how,
				fmt.Sprintf("%s with PublicIP %v (NoSecurity=%v) produced ID %x, which does not verify for that IP by the reference", how, pub, noSec, got), nil)
		}
		if !dht.NodeIdSecure(got, pub) {
			c.Violation("self-generated-id-fails-own-verifier:"+how, fmt.Sprintf("%s with PublicIP %v: %x", how, pub, got), nil)
		}
	}
	// InitNodeId without a Conn, security enforced.
	for i := 0; i < n/4+1; i++ {
		pub := r.PublicIPv4()
		if i%3 == 2 {
			pub = c17edgeIP(r, r.Intn(18))
		}
		cfg := dht.ServerConfig{PublicIP: pub}
		cfg.InitNodeId()
		c.Eval(1)
		c.Count("cases_config:InitNodeId(no Conn, security on)", 1)
		if !ref.Bep42Valid(cfg.NodeId, pub) {
			c.Violation("self-generated-id-not-valid-for-public-ip:InitNodeId", fmt.Sprintf("PublicIP %v: %x", pub, cfg.NodeId), nil)
		}
	}
}

// c17edgeIP draws an address from the ranges around the exemption rule: the exempt ones (10/8,
// 172.16/12, 192.168/16, 169.254/16, 127/8, ::1, fe80::/10) and look-alikes that are NOT exempt
// (IPv6 unique-local fc00::/7, site-local fec0::/10, CGNAT 100.64/10, 172.32/16, 192.169/16,
// multicast, class E, documentation ranges, v4-mapped forms of all of these).
func c17edgeIP(r *gen.Rand, k int) net.IP {
	b := r.Bytes(16)
	v4 := func(a, bb byte) net.IP {
		ip := net.IP{a, bb, b[2], b[3]}
		if r.Bool() {
			return gen.V4Mapped(ip)
		}
		return ip
	}
	v6 := func(hi, lo byte) net.IP {
		ip := append(net.IP(nil), b...)
		ip[0], ip[1] = hi, lo
		return ip
	}
	switch k % 18 {
	case 0:
		return v6(0xfc, b[1]) // unique local
	case 1:
		return v6(0xfd, b[1]) // unique local
	case 2:
		return v6(0xfe, 0xc0|b[1]&0x3f) // site local (deprecated)
	case 3:
		return v6(0xfe, 0x80|b[1]&0x3f) // link local: exempt
	case 4:
		return net.IPv6loopback
	case 5:
		return v4(10, b[1])
	case 6:
		return v4(172, 16|b[1]&0x0f)
	case 7:
		return v4(172, 32|b[1]&0x0f)
	case 8:
		return v4(192, 168)
	case 9:
		return v4(192, 169)
	case 10:
		return v4(169, 254)
	case 11:
		return v4(127, b[1])
	case 12:
		return v4(100, 64|b[1]&0x3f) // CGNAT
	case 13:
		return v4(224|b[0]&0x0f, b[1]) // multicast
	case 14:
		return v4(240|b[0]&0x0f, b[1]) // class E
	case 15:
		return v6(0xff, b[1]) // IPv6 multicast
	case 16:
		return v6(0x20, 0x01) // 2001::/16 (Teredo, documentation)
	}
	return v4(198, 18|b[1]&1) // benchmarking range
}
