package main

import (
	"fmt"
	"net"
	"sort"
	"sync"
	"time"

	"github.com/anacrolix/dht/v2"

	"verifharness/benc"
	"verifharness/evid"
	"verifharness/gen"
	"verifharness/ref"
	"verifharness/simnet"
	"verifharness/srv"
)

// c02server: the exactness clause on the Server's own lookup path (wire decoding of node lists,
// conversion into lookup candidates, the server's node filter, the traversal). A truthful network:
// every node answers get_peers with its own ID, a token and the true K closest nodes of the whole
// network to the infohash. The lookup's result set is observable at the socket: announce_peer goes to
// its members. It must be exactly the K closest nodes of the network, whatever their IDs are -
// including the IDs at the edges of the ID space (all zero, all ones) and a node whose ID is the
// target itself.
func c02server(c *evid.Ctx) {
	r := c.R.Fork("c02srv")
	runs := c.Scale(60, 3000)
	const K = 8
	for run := 0; run < runs && c.NumViolations() < 20; run++ {
		type peer struct {
			addr *net.UDPAddr
			id   [20]byte
		}
		N := r.Range(9, 40)
		var target [20]byte
		special := run % 4
		switch special {
		case 0:
			target = r.ID()
		case 1: // near zero; one node has the all-zero ID
			copy(target[16:], r.Bytes(4))
		case 2: // near the top; one node has the all-ones ID
			for i := range target {
				target[i] = 0xff
			}
			copy(target[17:], r.Bytes(3))
		case 3: // one node's ID is the target
			target = r.ID()
		}
		seenID := map[[20]byte]bool{}
		var peers []peer
		var alloc gen.AddrAlloc
		for i := 0; i < N; i++ {
			var id [20]byte
			switch {
			case i == 0 && special == 1:
			case i == 0 && special == 2:
				for k := range id {
					id[k] = 0xff
				}
			case i == 0 && special == 3:
				id = target
			case i < N/2:
				// a cluster around the target, so that the K closest are not decided by the first bits
				id = r.IDWithPrefix(target, 140+r.Intn(19))
			default:
				id = r.ID()
			}
			if seenID[id] {
				continue
			}
			seenID[id] = true
			peers = append(peers, peer{alloc.V4(), id})
		}
		byAddr := map[string]*peer{}
		for i := range peers {
			byAddr[peers[i].addr.String()] = &peers[i]
		}
		sorted := append([]peer(nil), peers...)
		sort.SliceStable(sorted, func(i, j int) bool { return ref.CmpDist(sorted[i].id, sorted[j].id, target) < 0 })
		want := sorted
		if len(want) > K {
			want = want[:K]
		}
		var closestList []byte
		for _, p := range want {
			closestList = append(closestList, srv.CompactNode(p.id, p.addr.IP.To4(), p.addr.Port)...)
		}
		seeds := []dht.Addr{}
		for k := 0; k < 3; k++ {
			seeds = append(seeds, dht.NewAddr(peers[len(peers)-1-r.Intn(len(peers)/2)].addr))
		}
		n, err := srv.New(dht.ServerConfig{NoSecurity: true,
			QueryResendDelay: func() time.Duration { return time.Hour },
			StartingNodes:    func() ([]dht.Addr, error) { return seeds, nil }})
		if err != nil {
			c.Inconclusive(err.Error())
			return
		}
		var mu sync.Mutex
		announced := map[string]int{}
		asked := map[string]int{}
		n.Conn.SetHook(func(d simnet.Datagram) error {
			m, err := benc.DecodeDict(d.B)
			if err != nil || m["y"] != "q" {
				return nil
			}
			p := byAddr[d.To.String()]
			if p == nil {
				return nil
			}
			t, _ := benc.Str(m, "t")
			q, _ := benc.Str(m, "q")
			mu.Lock()
			switch q {
			case "get_peers":
				asked[d.To.String()]++
			case "announce_peer":
				announced[d.To.String()]++
			}
			mu.Unlock()
			switch q {
			case "get_peers":
				n.Conn.Inject(srv.Response(t, benc.Dict{"id": p.id, "nodes": string(closestList), "token": "tok-" + d.To.String()}), d.To)
			default:
				n.Conn.Inject(srv.Response(t, benc.Dict{"id": p.id}), d.To)
			}
			return nil
		})
		done := make(chan struct{})
		go func() {
			defer close(done)
			a, err := n.S.Announce(target, 6881, false)
			if err != nil {
				return
			}
			for range a.Peers {
			}
			<-a.Finished()
		}()
		select {
		case <-done:
		case <-time.After(60 * time.Second):
			c.Inconclusive("server-path announce in a truthful network did not return (C03/C14/C16 judge that)")
			n.Close()
			return
		}
		n.Quiesce(nil)
		mu.Lock()
		var missing, extra []string
		for _, p := range want {
			if announced[p.addr.String()] == 0 {
				missing = append(missing, fmt.Sprintf("%v id=%x (asked %d times)", p.addr, p.id, asked[p.addr.String()]))
			}
		}
		wantSet := map[string]bool{}
		for _, p := range want {
			wantSet[p.addr.String()] = true
		}
		for a := range announced {
			if !wantSet[a] {
				extra = append(extra, fmt.Sprintf("%v id=%x", a, byAddr[a].id))
			}
		}
		na := len(announced)
		mu.Unlock()
		c.Eval(1)
		c.Count("server-path lookups in truthful networks (result read off the announce_peer destinations)", 1)
		c.Count("server-path truthful networks: "+[]string{"random target", "all-zero ID among the closest", "all-ones ID among the closest", "a node's ID is the target"}[special], 1)
		c.Distinct(gen.Hash64("c02srv", special, len(peers), na))
		if len(missing) > 0 || len(extra) > 0 {
			sort.Strings(extra)
			c.Violation("server-lookup-result-not-the-k-closest:"+[]string{"random", "zero-id", "ones-id", "id-is-target"}[special],
				fmt.Sprintf("truthful network of %d nodes, target %x: the lookup announced to %d nodes; closest-%d members left out: %v; announced to although not among them: %v",
					len(peers), target, na, len(want), missing, extra), nil)
		}
		n.Close()
	}
}
