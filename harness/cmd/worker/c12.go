package main

import (
	"bytes"
	"context"
	"crypto/ed25519"
	"fmt"
	"net"
	"strings"
	"sync"
	"time"

	"github.com/anacrolix/dht/v2"
	"github.com/anacrolix/dht/v2/bep44"
	"github.com/anacrolix/dht/v2/exts/getput"
	"github.com/anacrolix/dht/v2/krpc"
	"github.com/anacrolix/log"

	"verifharness/benc"
	"verifharness/evid"
	"verifharness/gen"
	"verifharness/ref"
	"verifharness/simnet"
	"verifharness/srv"
)

func init() { register("C12", c12) }

func c12selfcheck(c *evid.Ctx) bool {
	// BEP 44 test vector 1 (mutable, no salt): value "12:Hello World!", seq 1.
	pub := mustHex("77ff84905a91936367c01360803104f92432fcd904a43511876df5cdf3e7e548")
	sig := mustHex("305ac8aeb6c9c151fa120f120ea2cfb923564e11552d06a5d856091e5e853cff1260d3f39e4999684aa92eb73ffd136e6f4f3ecbfda0ce53a1608ecd7ae21f01")
	if !ed25519.Verify(pub, ref.Bep44SignBuf(nil, 1, []byte("12:Hello World!")), sig) {
		c.Inconclusive("reference signing buffer fails BEP 44 test vector 1")
		return false
	}
	// vector 2: salt "foobar"
	sig2 := mustHex("6834284b6b24c3204eb2fea824d82f88883a3d95e8b4a21b8c0ded553d17d17ddf9a8a7104b1258f30bed3787e6cb896fca78c58f8e03b5f18f14951a87d9a08")
	if !ed25519.Verify(pub, ref.Bep44SignBuf([]byte("foobar"), 1, []byte("12:Hello World!")), sig2) {
		c.Inconclusive("reference signing buffer fails BEP 44 test vector 2")
		return false
	}
	if fmt.Sprintf("%x", ref.SHA1(pub, []byte("foobar"))) != "411eba73b6f087ca51a3795d9c8c938d365e32c1" {
		c.Inconclusive("reference target derivation fails BEP 44 test vector 2")
		return false
	}
	c.Count("reference self-checks against BEP 44 vectors", 3)
	return true
}

func mustHex(s string) []byte {
	b := make([]byte, len(s)/2)
	fmt.Sscanf(s, "%x", &b)
	return b
}

// valueOfSize builds a bencode value of the given shape whose encoding is exactly size bytes.
func valueOfSize(r *gen.Rand, shape int, size int) any {
	strOf := func(n int) string { // string whose encoding is n bytes (n >= 2)
		for l := n; l >= 0; l-- {
			if len(fmt.Sprintf("%d:", l))+l == n {
				return string(r.Bytes(l))
			}
		}
		return ""
	}
	switch shape % 4 {
	case 0:
		return strOf(size)
	case 1: // list of one string: "l" + s + "e"
		return benc.List{strOf(size - 2)}
	case 2: // dict {"k": s}: "d1:k" + s + "e"
		return benc.Dict{"k": strOf(size - 5)}
	default: // list [int, string]: "li7e" + s + "e"
		return benc.List{int64(7), strOf(size - 5)}
	}
}

type c12item struct {
	v      any
	venc   []byte
	k      []byte // nil = immutable
	salt   []byte
	seq    int64
	sig    []byte
	seqSet bool
	desc   string
	okRef  bool
	code   int64 // expected error code when exactly one thing is wrong, 0 = any of the applicable
	target [20]byte
}

func (it *c12item) args(token string, sender [20]byte) benc.Dict {
	a := benc.Dict{"id": sender, "v": it.v, "token": token}
	if it.seqSet {
		a["seq"] = it.seq
	}
	if it.k != nil {
		a["k"] = string(it.k)
		a["sig"] = string(it.sig)
	}
	if len(it.salt) > 0 {
		a["salt"] = string(it.salt)
	}
	return a
}

func genItem(r *gen.Rand) *c12item {
	it := &c12item{seqSet: true, seq: int64(r.Intn(5))}
	size := gen.Pick(r, []int{3, 50, 500, 998, 999, 1000, 1001, 1002, 1500})
	it.v = valueOfSize(r, r.Intn(4), size)
	it.venc = benc.Encode(it.v)
	tooBig := len(it.venc) > 1000
	if r.Intn(4) == 0 {
		it.desc = fmt.Sprintf("immutable size=%d", len(it.venc))
		it.okRef = !tooBig
		it.code = 205
		it.target = ref.SHA1(it.venc)
		if r.Intn(6) == 0 {
			// all-zero key with a signature: that is an immutable item as far as keys go
			it.k, it.sig = make([]byte, 32), r.Bytes(64)
			it.desc += " (all-zero k)"
		}
		return it
	}
	pub, priv := edKey(r)
	it.k = pub
	it.salt = r.Bytes(gen.Pick(r, []int{0, 0, 1, 63, 64, 65, 200}))
	saltBig := len(it.salt) > 64
	sigKind := r.Intn(9)
	signSalt, signSeq, signV, signKey := it.salt, it.seq, it.venc, priv
	kind := "valid signature"
	switch sigKind {
	case 0:
		signSalt, kind = append([]byte("x"), it.salt...), "signature valid for another salt"
	case 1:
		signSeq, kind = it.seq+1, "signature valid for another seq"
	case 2:
		signV, kind = benc.Encode("other value"), "signature valid for another value"
	case 3:
		_, other := edKey(r)
		signKey, kind = other, "signature valid under another key"
	}
	it.sig = ed25519.Sign(signKey, ref.Bep44SignBuf(signSalt, signSeq, signV))
	if sigKind == 4 {
		it.sig[r.Intn(64)] ^= 1 << uint(r.Intn(8))
		kind = "one signature bit flipped"
	}
	if sigKind == 5 {
		it.k = append([]byte(nil), it.k...)
		it.k[r.Intn(32)] ^= 1 << uint(r.Intn(8))
		kind = "one key bit flipped"
	}
	sigOK := ed25519.Verify(it.k, ref.Bep44SignBuf(it.salt, it.seq, it.venc), it.sig)
	it.okRef = !tooBig && !saltBig && sigOK
	wrong := 0
	for _, b := range []bool{tooBig, saltBig, !sigOK} {
		if b {
			wrong++
		}
	}
	if wrong == 1 {
		switch {
		case tooBig:
			it.code = 205
		case saltBig:
			it.code = 207
		default:
			it.code = 206
		}
	}
	it.target = ref.SHA1(it.k, it.salt)
	it.desc = fmt.Sprintf("mutable size=%d salt=%d seq=%d %s", len(it.venc), len(it.salt), it.seq, kind)
	return it
}

// verifyServed checks one get reply against the reference; returns "" if fine.
func verifyServed(ret benc.Dict, target [20]byte, salt []byte) string {
	vRaw, has := ret["v"]
	if !has {
		return ""
	}
	venc := benc.Encode(vRaw)
	k, _ := benc.Str(ret, "k")
	if k == "" || k == string(make([]byte, 32)) {
		if ref.SHA1(venc) != target {
			return fmt.Sprintf("immutable value served under %x hashes to %x", target, ref.SHA1(venc))
		}
		return ""
	}
	sig, _ := benc.Str(ret, "sig")
	seq, ok := benc.Int(ret, "seq")
	if !ok {
		return "mutable item served without seq"
	}
	if ref.SHA1([]byte(k), salt) != target {
		return fmt.Sprintf("mutable item with key %x served under target %x which is not SHA-1(key||salt)", k, target)
	}
	if len(sig) != 64 || !ed25519.Verify([]byte(k), ref.Bep44SignBuf(salt, seq, venc), []byte(sig)) {
		return fmt.Sprintf("mutable item served under %x does not verify (seq %d)", target, seq)
	}
	return ""
}

func c12(c *evid.Ctx) {
	if !c12selfcheck(c) {
		return
	}
	c12server(c)
	c12concurrent(c)
	c12api(c)
	c12client(c)
}

func c12server(c *evid.Ctx) {
	r := c.R.Fork("server")
	st := &recStore{inner: bep44.NewMemory()}
	n, err := srv.New(dht.ServerConfig{NoSecurity: true, Store: st})
	if err != nil {
		c.Inconclusive(err.Error())
		return
	}
	defer n.Close()
	var alloc gen.AddrAlloc
	type known struct {
		target [20]byte
		salt   []byte
		v      []byte
		seq    int64
		k      []byte
	}
	var stored []known
	puts := c.Scale(3000, 100000)
	getOf := func(target [20]byte, from *net.UDPAddr) (benc.Dict, bool) {
		rs, err := n.Ask(srv.Query("get", "g", benc.Dict{"id": r.ID(), "target": target}), from)
		if err != nil || len(rs) != 1 || rs[0].Y() != "r" {
			return nil, false
		}
		return rs[0].R(), true
	}
	for i := 0; i < puts && c.NumViolations() < 20; i++ {
		it := genItem(r)
		if i%7 == 3 && len(stored) > 0 {
			// against a pre-populated target: same key and salt as a stored item, forged or genuine update
			_ = stored
		}
		src := alloc.V4()
		tok, err := n.Token(src, r.ID())
		if err != nil {
			c.Inconclusive(err.Error())
			return
		}
		before, _ := getOf(it.target, alloc.V4())
		putsBefore := st.got(it.target)
		c.WAL("put %d: %s", i, it.desc)
		rs, err := n.Ask(srv.Query("put", "p", it.args(tok, r.ID())), &net.UDPAddr{IP: src.IP, Port: src.Port})
		if err != nil {
			c.Inconclusive(err.Error())
			return
		}
		after, okGet := getOf(it.target, alloc.V4())
		c.Eval(1)
		c.Count("wire puts judged", 1)
		c.Distinct(gen.Hash64("wire", it.desc))
		rp := map[string]any{"item": it.desc, "via": "wire"}
		if c.WantSample() && i%211 == 0 {
			c.Sample(rp)
		}
		if len(rs) != 1 {
			c.Violation("put-with-valid-token-not-answered-once", fmt.Sprintf("%s: %d replies", it.desc, len(rs)), rp)
			continue
		}
		if !okGet {
			c.Violation("get-not-answered", it.desc, rp)
			continue
		}
		if msg := verifyServed(after, it.target, it.salt); msg != "" {
			c.Violation("served-item-fails-reference-check", fmt.Sprintf("after %s: %s", it.desc, msg), rp)
		}
		if it.okRef {
			c.Count("valid items", 1)
			// Accepted unless the version rules (C13) say otherwise: an item already stored under
			// this target with seq >= ours and another value.
			if rs[0].Y() == "e" && (rs[0].ErrCode() == 301 || rs[0].ErrCode() == 302) && before["v"] != nil {
				c.Count("valid items rejected by the version rules (judged by C13)", 1)
				continue
			}
			if rs[0].Y() != "r" {
				c.Violation("valid-item-rejected", fmt.Sprintf("%s: %q", it.desc, rs[0].Raw), rp)
				continue
			}
			if st.got(it.target) != putsBefore+1 {
				c.Violation("accepted-put-did-not-reach-the-store", it.desc, rp)
			}
			gv, has := after["v"]
			if !has || !bytes.Equal(benc.Encode(gv), it.venc) {
				c.Violation("accepted-item-not-served-back", fmt.Sprintf("%s: get returned v=%v", it.desc, has), rp)
				continue
			}
			if it.k != nil && !bytes.Equal(it.k, make([]byte, 32)) {
				gk, _ := benc.Str(after, "k")
				gs, _ := benc.Str(after, "sig")
				gq, _ := benc.Int(after, "seq")
				if gk != string(it.k) || gs != string(it.sig) || gq != it.seq {
					c.Violation("accepted-item-served-with-other-fields", fmt.Sprintf("%s: k/sig/seq differ", it.desc), rp)
				}
			}
			stored = append(stored, known{it.target, it.salt, it.venc, it.seq, it.k})
			continue
		}
		c.Count("invalid items", 1)
		if rs[0].Y() != "e" {
			c.Violation("invalid-item-accepted", fmt.Sprintf("%s: reply %q", it.desc, rs[0].Raw), rp)
		} else {
			code := rs[0].ErrCode()
			if it.code != 0 && code != it.code || it.code == 0 && code != 205 && code != 206 && code != 207 {
				c.Violation(fmt.Sprintf("wrong-error-code-%d-for-rejected-item", code), fmt.Sprintf("%s: expected %d, got %q", it.desc, it.code, rs[0].Raw), rp)
			}
		}
		if st.got(it.target) != putsBefore {
			c.Violation("rejected-put-reached-the-store", it.desc, rp)
		}
		if fmt.Sprint(before["v"], before["seq"], before["k"]) != fmt.Sprint(after["v"], after["seq"], after["k"]) {
			c.Violation("rejected-put-changed-what-get-serves", fmt.Sprintf("%s: before %v after %v", it.desc, before["seq"], after["seq"]), rp)
		}
	}
	// Forged updates against stored mutable items: right key and salt, next seq, signature not valid.
	for i, kn := range stored {
		if kn.k == nil || bytes.Equal(kn.k, make([]byte, 32)) || i%3 != 0 || c.NumViolations() >= 20 {
			continue
		}
		src := alloc.V4()
		tok, _ := n.Token(src, r.ID())
		forged := benc.Dict{"id": r.ID(), "token": tok, "v": "forged", "k": string(kn.k), "seq": kn.seq + 1, "sig": string(r.Bytes(64))}
		if len(kn.salt) > 0 {
			forged["salt"] = string(kn.salt)
		}
		rs, _ := n.Ask(srv.Query("put", "f", forged), src)
		after, _ := getOf(kn.target, alloc.V4())
		c.Eval(1)
		c.Count("forged updates of stored items judged", 1)
		if len(rs) != 1 || rs[0].Y() != "e" || rs[0].ErrCode() != 206 {
			c.Violation("forged-update-not-rejected-with-206", fmt.Sprintf("target %x: %d replies", kn.target, len(rs)), nil)
		}
		if gv, has := after["v"]; !has || !bytes.Equal(benc.Encode(gv), kn.v) {
			c.Violation("forged-update-replaced-stored-item", fmt.Sprintf("target %x", kn.target), nil)
		}
		// Same seq, same value, forged signature: a "refresh" must not bypass verification either.
		same := benc.Dict{"id": r.ID(), "token": tok, "v": benc.Raw(kn.v), "k": string(kn.k), "seq": kn.seq, "sig": string(r.Bytes(64))}
		if len(kn.salt) > 0 {
			same["salt"] = string(kn.salt)
		}
		rs, _ = n.Ask(srv.Query("put", "f2", same), &net.UDPAddr{IP: src.IP, Port: src.Port%65535 + 1})
		after, _ = getOf(kn.target, alloc.V4())
		c.Count("forged re-puts (same seq and value, bad signature) judged", 1)
		if len(rs) != 1 || rs[0].Y() != "e" || rs[0].ErrCode() != 206 {
			c.Violation("forged-refresh-not-rejected-with-206", fmt.Sprintf("target %x: replies %d", kn.target, len(rs)), nil)
		}
		if msg := verifyServed(after, kn.target, kn.salt); msg != "" {
			c.Violation("served-item-fails-reference-check", "after forged refresh: "+msg, nil)
		}
	}
}

// c12api: the same judgement through bep44.Wrapper.Put and Server.Put.
func c12api(c *evid.Ctx) {
	r := c.R.Fork("api")
	st := &recStore{inner: bep44.NewMemory()}
	w := bep44.NewWrapper(st, 2*time.Hour)
	st2 := &recStore{inner: bep44.NewMemory()}
	n, err := srv.New(dht.ServerConfig{NoSecurity: true, Store: st2})
	if err != nil {
		c.Inconclusive(err.Error())
		return
	}
	defer n.Close()
	puts := c.Scale(1000, 30000)
	for i := 0; i < puts && c.NumViolations() < 20; i++ {
		it := genItem(r)
		// The Go API takes the value as a Go value; decode ours with the library's decoder-independent form.
		item := &bep44.Item{V: toGo(it.v), Salt: it.salt, Seq: it.seq}
		if it.k != nil {
			copy(item.K[:], it.k)
			copy(item.Sig[:], it.sig)
		}
		var errPut error
		store := st
		if i%3 == 0 {
			store = st2
			p := item.ToPut()
			res := n.S.Put(context.Background(), dht.NewAddr(&net.UDPAddr{IP: net.IP{203, 0, 113, 9}, Port: 9}), p, "tok", dht.QueryRateLimiting{})
			errPut = res.Err
			if errPut != nil && strings.Contains(errPut.Error(), "timed out") {
				errPut = nil // stored locally, then the (unanswered) remote put timed out
			}
			n.Quiesce(nil)
		} else {
			errPut = w.Put(item)
		}
		before := store.got(it.target)
		_ = before
		c.Eval(1)
		c.Count("API puts judged", 1)
		c.Distinct(gen.Hash64("api", it.desc, i%3 == 0))
		kerr, isK := errPut.(krpc.Error)
		if it.okRef {
			if errPut != nil && !(isK && (kerr.Code == 301 || kerr.Code == 302)) {
				c.Violation("valid-item-rejected:api", fmt.Sprintf("%s: %v", it.desc, errPut), nil)
			}
			continue
		}
		if errPut == nil {
			c.Violation("invalid-item-accepted:api", it.desc, nil)
			continue
		}
		if !isK || it.code != 0 && int64(kerr.Code) != it.code {
			c.Violation("wrong-error-code-for-rejected-item:api", fmt.Sprintf("%s: %v (want %d)", it.desc, errPut, it.code), nil)
		}
		if it.k != nil && store.got(it.target) > 0 {
			// a unique key per item: any Put call for this target came from this rejected item
			c.Violation("rejected-put-reached-the-store:api", it.desc, nil)
		}
	}
}

func toGo(v any) any {
	switch x := v.(type) {
	case benc.List:
		out := make([]any, len(x))
		for i := range x {
			out[i] = toGo(x[i])
		}
		return out
	case benc.Dict:
		out := map[string]any{}
		for k, e := range x {
			out[k] = toGo(e)
		}
		return out
	}
	return v
}

// ---- client side: getput.Get against simulated remote nodes ----

type c12peer struct {
	addr  *net.UDPAddr
	id    [20]byte
	reply func(target [20]byte) benc.Dict // extra fields of r (v,k,sig,seq); nil = none
	noTok bool
	kind  string
}

func c12client(c *evid.Ctx) {
	r := c.R.Fork("client")
	gets := c.Scale(300, 10000)
	for g := 0; g < gets && c.NumViolations() < 20; g++ {
		mutable := g%4 != 0
		pub, priv := edKey(r)
		salt := r.Bytes(gen.Pick(r, []int{0, 0, 5, 64}))
		var target [20]byte
		immV := benc.Encode(string(r.Bytes(20)))
		if mutable {
			target = ref.SHA1(pub, salt)
		} else {
			target = ref.SHA1(immV)
		}
		np := r.Range(1, 14)
		peers := map[string]*c12peer{}
		var order []*c12peer
		type cand struct {
			seq int64
			v   []byte
		}
		var verified []cand // filled as peers are actually queried
		var mu sync.Mutex
		queried := map[string]bool{}
		sign := func(k ed25519.PrivateKey, s []byte, seq int64, v []byte) string {
			return string(ed25519.Sign(k, ref.Bep44SignBuf(s, seq, v)))
		}
		for i := 0; i < np; i++ {
			p := &c12peer{addr: &net.UDPAddr{IP: r.PublicIPv4(), Port: r.Port()}, id: r.ID()}
			seq := int64(r.Intn(6))
			v := benc.Encode(fmt.Sprintf("value-%d-%d", i, seq))
			kind := r.Intn(12)
			if !mutable {
				switch kind % 4 {
				case 0:
					p.kind = "genuine immutable"
					p.reply = func([20]byte) benc.Dict { return benc.Dict{"v": benc.Raw(immV)} }
				case 1:
					p.kind = "immutable with wrong hash"
					p.reply = func([20]byte) benc.Dict { return benc.Dict{"v": "something else"} }
				case 2:
					p.kind = "no value"
				case 3:
					p.kind = "mutable item under an immutable target"
					p.reply = func([20]byte) benc.Dict {
						return benc.Dict{"v": benc.Raw(v), "k": string(pub), "seq": seq, "sig": sign(priv, nil, seq, v)}
					}
				}
			} else {
				switch kind {
				case 0, 1, 2, 3:
					p.kind = fmt.Sprintf("genuine seq=%d", seq)
					p.reply = func([20]byte) benc.Dict {
						return benc.Dict{"v": benc.Raw(v), "k": string(pub), "seq": seq, "sig": sign(priv, salt, seq, v)}
					}
				case 4:
					p.kind = "forged value under the right key"
					p.reply = func([20]byte) benc.Dict {
						return benc.Dict{"v": "forged", "k": string(pub), "seq": int64(99), "sig": sign(priv, salt, 99, v)}
					}
				case 5:
					p.kind = "valid item under another key"
					opub, opriv := edKey(r)
					p.reply = func([20]byte) benc.Dict {
						return benc.Dict{"v": benc.Raw(v), "k": string(opub), "seq": int64(100), "sig": sign(opriv, salt, 100, v)}
					}
				case 6:
					p.kind = "right key, no seq"
					p.reply = func([20]byte) benc.Dict {
						return benc.Dict{"v": benc.Raw(v), "k": string(pub), "sig": sign(priv, salt, seq, v)}
					}
				case 7:
					p.kind = "right key, no sig"
					p.reply = func([20]byte) benc.Dict { return benc.Dict{"v": benc.Raw(v), "k": string(pub), "seq": int64(50)} }
				case 8:
					p.kind = "signed for another salt"
					p.reply = func([20]byte) benc.Dict {
						return benc.Dict{"v": benc.Raw(v), "k": string(pub), "seq": int64(60), "sig": sign(priv, append([]byte("x"), salt...), 60, v)}
					}
				case 9:
					p.kind = "no value"
				case 10:
					p.kind = fmt.Sprintf("genuine seq=%d, reply without token", seq)
					p.noTok = true
					p.reply = func([20]byte) benc.Dict {
						return benc.Dict{"v": benc.Raw(v), "k": string(pub), "seq": seq, "sig": sign(priv, salt, seq, v)}
					}
				case 11:
					p.kind = "seq signed differs from seq sent"
					p.reply = func([20]byte) benc.Dict {
						return benc.Dict{"v": benc.Raw(v), "k": string(pub), "seq": int64(70), "sig": sign(priv, salt, 1, v)}
					}
				}
			}
			peers[p.addr.String()] = p
			order = append(order, p)
		}
		n, err := srv.New(dht.ServerConfig{NoSecurity: true, StartingNodes: func() ([]dht.Addr, error) {
			var out []dht.Addr
			for i := 0; i < 1+len(order)/3; i++ {
				out = append(out, dht.NewAddr(order[i].addr))
			}
			return out, nil
		}, QueryResendDelay: func() time.Duration { return 30 * time.Second }}) // every simulated node answers: nothing needs a time-out
		if err != nil {
			c.Inconclusive(err.Error())
			return
		}
		n.Conn.SetHook(func(d simnet.Datagram) error {
			p := peers[d.To.String()]
			m, err := benc.DecodeDict(d.B)
			if p == nil || err != nil || m["q"] != "get" {
				return nil
			}
			t, _ := benc.Str(m, "t")
			ret := benc.Dict{"id": p.id}
			if !p.noTok {
				ret["token"] = "tok"
			}
			// tell about the other peers
			var nodes []byte
			for _, o := range order {
				nodes = append(nodes, srv.CompactNode(o.id, o.addr.IP, o.addr.Port)...)
			}
			ret["nodes"] = string(nodes)
			if p.reply != nil {
				for k, v := range p.reply(target) {
					ret[k] = v
				}
				// what a correct client may accept from this reply, by the reference
				ve := benc.Encode(ret["v"])
				mu.Lock()
				if !mutable {
					if ref.SHA1(ve) == target {
						verified = append(verified, cand{0, ve})
					}
				} else if k, _ := benc.Str(ret, "k"); ref.SHA1([]byte(k), salt) == target {
					sq, has := benc.Int(ret, "seq")
					sg, _ := benc.Str(ret, "sig")
					if has && len(sg) == 64 && ed25519.Verify([]byte(k), ref.Bep44SignBuf(salt, sq, ve), []byte(sg)) {
						verified = append(verified, cand{sq, ve})
					}
				}
				mu.Unlock()
			}
			mu.Lock()
			queried[p.addr.String()] = true
			mu.Unlock()
			n.Conn.Inject(srv.Response(t, ret), d.To)
			return nil
		})
		ctx, cancel := context.WithTimeout(context.Background(), 60*time.Second)
		var saltArg []byte
		if mutable {
			saltArg = salt
		}
		if g%2 == 1 {
			// Get logs every value it receives to the context's logger; a handler that dawdles makes
			// the consumer slow, so that several nodes' values are in flight at once.
			ctx = log.ContextWithLogger(ctx, slowLogger())
		}
		res, _, gerr := getput.Get(ctx, target, n.S, nil, saltArg)
		cancel()
		n.Quiesce(nil)
		c.Eval(1)
		c.Count("client get traversals judged", 1)
		mu.Lock()
		var kinds []string
		for _, p := range order {
			if queried[p.addr.String()] {
				kinds = append(kinds, p.kind)
			}
		}
		c.Distinct(gen.Hash64("client", mutable, strings.Join(kinds, "|")))
		desc := fmt.Sprintf("mutable=%v salt=%d peers queried: %v", mutable, len(salt), kinds)
		if len(verified) == 0 {
			c.Count("client gets with no acceptable value on offer", 1)
			if gerr == nil {
				c.Violation("client-returned-a-value-although-none-verifies", fmt.Sprintf("%s: got seq=%d v=%q", desc, res.Seq, res.V), nil)
			}
		} else {
			c.Count("client gets with an acceptable value on offer", 1)
			max := verified[0].seq
			for _, v := range verified {
				if v.seq > max {
					max = v.seq
				}
			}
			okv := false
			for _, v := range verified {
				if bytes.Equal(v.v, res.V) && (!mutable || v.seq == res.Seq && v.seq == max) {
					okv = true
				}
			}
			if gerr != nil {
				c.Violation("client-missed-a-verifiable-value", fmt.Sprintf("%s: err=%v", desc, gerr), nil)
			} else if !okv {
				c.Violation("client-returned-unverified-or-stale-value", fmt.Sprintf("%s: returned seq=%d v=%q; verified candidates %v (max seq %d)", desc, res.Seq, res.V, verified, max), nil)
			}
		}
		mu.Unlock()
		if c.WantSample() && g%41 == 0 {
			c.Sample(map[string]any{"client_get": desc, "error": fmt.Sprint(gerr)})
		}
		n.Close()
	}
}


// c12concurrent: local Server.Put calls with rising seq race inbound gets for the same target; every
// reply must still be one coherent, verifiable item.
func c12concurrent(c *evid.Ctx) {
	r := c.R.Fork("concurrent")
	rounds := c.Scale(24, 800)
	for round := 0; round < rounds && c.NumViolations() < 20; round++ {
		n, err := srv.New(dht.ServerConfig{NoSecurity: true})
		if err != nil {
			c.Inconclusive(err.Error())
			return
		}
		pub, priv := edKey(r)
		salt := r.Bytes(gen.Pick(r, []int{0, 3}))
		target := ref.SHA1(pub, salt)
		var alloc gen.AddrAlloc
		puts := 40
		items := make([]bep44.Put, puts)
		for i := range items {
			v := fmt.Sprintf("value-%d-%x", i, r.Bytes(6))
			var k [32]byte
			copy(k[:], pub)
			p := bep44.Put{V: v, K: &k, Salt: salt, Seq: int64(i + 1)}
			copy(p.Sig[:], ed25519.Sign(priv, ref.Bep44SignBuf(salt, p.Seq, benc.Encode(v))))
			items[i] = p
		}
		done := make(chan struct{})
		go func() {
			defer close(done)
			for _, p := range items {
				n.S.Put(context.Background(), dht.NewAddr(&net.UDPAddr{IP: net.IP{203, 0, 113, 9}, Port: 9}), p, "tok", dht.QueryRateLimiting{})
			}
		}()
		sent := 0
		for {
			select {
			case <-done:
			default:
				n.Conn.Inject(srv.Query("get", "cg", benc.Dict{"id": [20]byte{9}, "target": target}), alloc.V4())
				sent++
				if sent%20 == 0 {
					time.Sleep(100 * time.Microsecond)
				}
				continue
			}
			break
		}
		if err := n.Quiesce(nil); err != nil {
			c.Inconclusive(err.Error())
			n.Close()
			return
		}
		lastSeq := int64(0)
		_ = lastSeq
		for _, d := range n.Conn.Captured(0) {
			m, err := benc.DecodeDict(d.B)
			if err != nil || m["y"] != "r" || m["t"] != "cg" {
				continue
			}
			ret, _ := benc.Sub(m, "r")
			c.Eval(1)
			c.Count("get replies checked while puts were racing", 1)
			if _, has := ret["v"]; has {
				c.Count("get replies carrying a value while puts were racing", 1)
			}
			if msg := verifyServed(ret, target, salt); msg != "" {
				c.Violation("served-item-fails-reference-check:concurrent", fmt.Sprintf("get answered while Server.Put calls were replacing the item: %s (reply %q)", msg, truncBytes(d.B)), nil)
				break
			}
		}
		c.Distinct(gen.Hash64("c12conc", round, sent))
		n.Close()
	}
}


type slowHandler struct{}

func (slowHandler) Handle(log.Record) { time.Sleep(300 * time.Microsecond) }

func slowLogger() log.Logger {
	l := log.NewLogger("verif-slow")
	l.Handlers = []log.Handler{slowHandler{}}
	return l.WithFilterLevel(log.Debug)
}
