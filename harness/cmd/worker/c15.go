package main

import (
	"bytes"
	"encoding"
	"fmt"
	"net"
	"os"
	"path/filepath"
	"reflect"
	"strings"
	"time"

	"github.com/anacrolix/dht/v2"
	"github.com/anacrolix/dht/v2/krpc"
	"github.com/anacrolix/torrent/bencode"

	"verifharness/evid"
	"verifharness/gen"
	"verifharness/hostile"
)

func init() { register("C15", c15) }

// C15 — KRPC wire codec round-trips and never panics.
func c15(c *evid.Ctx) {
	t := time.Now()
	lap := func(name string) {
		c.Count("ms:"+name, int(time.Since(t).Milliseconds()))
		t = time.Now()
	}
	c15roundtrip(c)
	lap("roundtrip")
	c15bytes(c)
	lap("bytes")
	c15decoders(c)
	lap("decoders")
	c15nodesFile(c)
	lap("nodesfile")
	c15pipeline(c)
	lap("pipeline")
}

// ---- generated messages ----

func genIP(r *gen.Rand, family int) net.IP {
	switch family {
	case 4:
		if r.Bool() {
			return r.PublicIPv4()
		}
		return gen.V4Mapped(r.PublicIPv4())
	case 6:
		return r.PublicIPv6()
	}
	// arbitrary length for values/ip
	switch r.Intn(5) {
	case 0:
		return nil
	case 1:
		return net.IP(r.Bytes(r.Intn(30)))
	case 2:
		return r.PublicIPv6()
	case 3:
		return gen.V4Mapped(r.PublicIPv4())
	}
	return r.PublicIPv4()
}

func genNodes(r *gen.Rand, family int) []krpc.NodeInfo {
	switch r.Intn(4) {
	case 0:
		return nil
	case 1:
		return []krpc.NodeInfo{}
	}
	n := make([]krpc.NodeInfo, 1+r.Intn(9))
	for i := range n {
		n[i] = krpc.NodeInfo{ID: r.ID(), Addr: krpc.NodeAddr{IP: genIP(r, family), Port: r.Intn(65536)}}
	}
	return n
}

func genBencodeValue(r *gen.Rand, depth int) any {
	switch r.Intn(5) {
	case 0:
		return int64(r.U64())
	case 1:
		return string(r.Bytes(r.Intn(50)))
	case 2:
		if depth > 2 {
			return "leaf"
		}
		l := []any{}
		for i := 0; i < r.Intn(4); i++ {
			l = append(l, genBencodeValue(r, depth+1))
		}
		return l
	case 3:
		if depth > 2 {
			return int64(0)
		}
		d := map[string]any{}
		for i := 0; i < r.Intn(4); i++ {
			d[string(r.Bytes(1+r.Intn(5)))] = genBencodeValue(r, depth+1)
		}
		return d
	}
	return ""
}

func optInt(r *gen.Rand) *int {
	if r.Bool() {
		return nil
	}
	v := gen.Pick(r, []int{0, 1, 65535, -1, r.Intn(1 << 30)})
	return &v
}

func optInt64(r *gen.Rand) *int64 {
	if r.Bool() {
		return nil
	}
	v := gen.Pick(r, []int64{0, 1, -1, 1<<63 - 1, -1 << 63, int64(r.U64())})
	return &v
}

func genMsg(r *gen.Rand) (m krpc.Msg, class string) {
	m.T = string(r.Bytes(r.Intn(6)))
	if r.Intn(20) == 0 {
		m.T = string(r.Bytes(300))
	}
	switch r.Intn(3) {
	case 0:
		class = "q"
		m.Y = "q"
		m.Q = gen.Pick(r, hostile.Methods[:7])
		if r.Intn(8) != 0 {
			a := &krpc.MsgArgs{ID: r.ID()}
			if r.Bool() {
				a.InfoHash = r.ID()
			}
			if r.Bool() {
				a.Target = r.ID()
			}
			if r.Bool() {
				a.Token = string(r.Bytes(r.Intn(30)))
			}
			a.Port = optInt(r)
			a.ImpliedPort = r.Bool()
			switch r.Intn(4) {
			case 1:
				a.Want = []krpc.Want{}
			case 2:
				a.Want = []krpc.Want{krpc.WantNodes}
			case 3:
				a.Want = []krpc.Want{krpc.WantNodes6, krpc.WantNodes, "zz"}
			}
			a.NoSeed = r.Intn(2)
			a.Scrape = r.Intn(2)
			if r.Bool() {
				a.V = genBencodeValue(r, 0)
			}
			a.Seq = optInt64(r)
			if r.Bool() {
				a.Cas = int64(r.U64())
			}
			if r.Bool() {
				copy(a.K[:], r.Bytes(32))
			}
			switch r.Intn(3) {
			case 1:
				a.Salt = []byte{}
			case 2:
				a.Salt = r.Bytes(1 + r.Intn(80))
			}
			if r.Bool() {
				copy(a.Sig[:], r.Bytes(64))
			}
			m.A = a
		}
	case 1:
		class = "r"
		m.Y = "r"
		if r.Intn(8) != 0 {
			ret := &krpc.Return{ID: r.ID()}
			ret.Nodes = genNodes(r, 4)
			ret.Nodes6 = genNodes(r, 6)
			if r.Bool() {
				t := string(r.Bytes(r.Intn(30)))
				ret.Token = &t
			}
			switch r.Intn(4) {
			case 1:
				ret.Values = []krpc.NodeAddr{}
			case 2, 3:
				for i := 0; i < 1+r.Intn(6); i++ {
					ret.Values = append(ret.Values, krpc.NodeAddr{IP: genIP(r, 0), Port: r.Intn(65536)})
				}
			}
			if r.Bool() {
				var bf krpc.ScrapeBloomFilter
				copy(bf[:], r.Bytes(256))
				ret.BFsd = &bf
			}
			if r.Bool() {
				var bf krpc.ScrapeBloomFilter
				if r.Bool() {
					copy(bf[:], r.Bytes(256))
				}
				ret.BFpe = &bf
			}
			ret.Interval = optInt64(r)
			ret.Num = optInt64(r)
			switch r.Intn(3) {
			case 1:
				s := krpc.CompactInfohashes{}
				ret.Samples = &s
			case 2:
				s := krpc.CompactInfohashes{}
				for i := 0; i < 1+r.Intn(5); i++ {
					s = append(s, r.ID())
				}
				ret.Samples = &s
			}
			if r.Bool() {
				ret.V = bencode.MustMarshal(genBencodeValue(r, 0))
			}
			if r.Bool() {
				copy(ret.K[:], r.Bytes(32))
			}
			if r.Bool() {
				copy(ret.Sig[:], r.Bytes(64))
			}
			ret.Seq = optInt64(r)
			m.R = ret
		}
	case 2:
		class = "e"
		m.Y = "e"
		if r.Intn(8) != 0 {
			m.E = &krpc.Error{Code: gen.Pick(r, []int{201, 202, 203, 204, 205, 206, 207, 301, 302, 0, -1, 1 << 30}), Msg: string(r.Bytes(r.Intn(40)))}
		}
	}
	if r.Intn(3) == 0 {
		m.IP = krpc.NodeAddr{IP: genIP(r, 0), Port: r.Intn(65536)}
		if m.IP.IP == nil && m.IP.Port == 0 {
			m.IP.Port = 1
		}
	}
	m.ReadOnly = r.Intn(4) == 0
	if r.Intn(4) == 0 {
		m.ClientId = string(r.Bytes(r.Intn(6)))
	}
	return
}

// normalize makes the documented equivalences syntactic: nil == empty for lists and byte strings,
// IPs compare with IP.Equal (so every IPv4 form becomes 4 bytes).
func normIP(ip net.IP) net.IP {
	if v4 := ip.To4(); v4 != nil {
		return v4
	}
	if len(ip) == 0 {
		return nil
	}
	return ip
}

func normNodes(ns []krpc.NodeInfo) []krpc.NodeInfo {
	if len(ns) == 0 {
		return nil
	}
	out := make([]krpc.NodeInfo, len(ns))
	for i, n := range ns {
		out[i] = krpc.NodeInfo{ID: n.ID, Addr: krpc.NodeAddr{IP: normIP(n.Addr.IP), Port: n.Addr.Port}}
	}
	return out
}

func normalize(m krpc.Msg) krpc.Msg {
	m.IP.IP = normIP(m.IP.IP)
	if m.A != nil {
		a := *m.A
		if len(a.Want) == 0 {
			a.Want = nil
		}
		if len(a.Salt) == 0 {
			a.Salt = nil
		}
		m.A = &a
	}
	if m.R != nil {
		r := *m.R
		r.Nodes = normNodes(r.Nodes)
		r.Nodes6 = normNodes(r.Nodes6)
		if len(r.Values) == 0 {
			r.Values = nil
		} else {
			vs := make([]krpc.NodeAddr, len(r.Values))
			for i, v := range r.Values {
				vs[i] = krpc.NodeAddr{IP: normIP(v.IP), Port: v.Port}
			}
			r.Values = vs
		}
		if r.Samples != nil && len(*r.Samples) == 0 {
			e := krpc.CompactInfohashes(nil)
			r.Samples = &e
		}
		if len(r.V) == 0 {
			r.V = nil
		}
		m.R = &r
	}
	return m
}

func safeMarshal(v any) (b []byte, err error, panicked any) {
	defer func() { panicked = recover() }()
	b, err = bencode.Marshal(v)
	return
}

func safeUnmarshal(b []byte, v any) (err error, panicked any) {
	defer func() { panicked = recover() }()
	err = bencode.Unmarshal(b, v)
	return
}

func c15roundtrip(c *evid.Ctx) {
	r := c.R.Fork("roundtrip")
	n := c.Scale(20000, 300000)
	for i := 0; i < n; i++ {
		m, class := genMsg(r)
		c.Eval(1)
		c.Count("generated messages round-tripped", 1)
		enc, err, p := safeMarshal(m)
		if p != nil {
			c.Violation("encode-panics", fmt.Sprintf("encoding %+v panicked: %v", m, p), nil)
			continue
		}
		if err != nil {
			c.Violation("encode-fails-on-well-formed-message", fmt.Sprintf("%+v: %v", m, err), nil)
			continue
		}
		c.Distinct(gen.Hash64("rt", class, m.Q, m.A != nil, m.R != nil, m.E != nil, len(enc)/16))
		var d krpc.Msg
		err, p = safeUnmarshal(enc, &d)
		if p != nil {
			c.Violation("decode-panics", fmt.Sprintf("decoding %q panicked: %v", enc, p), fmt.Sprintf("%q", enc))
			continue
		}
		if err != nil {
			c.Violation("decode-rejects-own-encoding", fmt.Sprintf("message %+v encoded to %q which does not decode: %v", m, enc, err), fmt.Sprintf("%q", enc))
			continue
		}
		if !reflect.DeepEqual(normalize(m), normalize(d)) {
			c.Violation("roundtrip-changes-message:"+class+":"+diffField(normalize(m), normalize(d)),
				fmt.Sprintf("sent    %+v\ndecoded %+v\nbytes %q", describe(m), describe(d), enc), fmt.Sprintf("%q", enc))
			continue
		}
		enc2, err, p := safeMarshal(d)
		if p != nil || err != nil {
			c.Violation("re-encode-fails", fmt.Sprintf("%q: err=%v panic=%v", enc, err, p), fmt.Sprintf("%q", enc))
			continue
		}
		if !bytes.Equal(enc, enc2) && !hasEmptyNonNil(m) {
			c.Violation("re-encoding-not-identical:"+class, fmt.Sprintf("first  %q\nsecond %q", enc, enc2), fmt.Sprintf("%q", enc))
		}
		if c.WantSample() && i%7 == 0 {
			c.Sample(map[string]any{"kind": "generated message", "bytes": fmt.Sprintf("%q", enc)})
		}
	}
}

// A non-nil but empty compact list (or values list) is encoded as an empty string/list and decodes
// to nil, which is then omitted: documented, and excluded from the byte-for-byte clause.
func hasEmptyNonNil(m krpc.Msg) bool {
	if m.R != nil {
		if m.R.Nodes != nil && len(m.R.Nodes) == 0 || m.R.Nodes6 != nil && len(m.R.Nodes6) == 0 ||
			m.R.Values != nil && len(m.R.Values) == 0 || m.R.Samples != nil && len(*m.R.Samples) == 0 {
			return true
		}
	}
	if m.A != nil && (m.A.Want != nil && len(m.A.Want) == 0 || m.A.Salt != nil && len(m.A.Salt) == 0) {
		return true
	}
	return false
}

func describe(m krpc.Msg) string {
	s := fmt.Sprintf("{Q:%q T:%q Y:%q IP:%v ro:%v v:%q", m.Q, m.T, m.Y, m.IP, m.ReadOnly, m.ClientId)
	if m.A != nil {
		s += fmt.Sprintf(" A:%+v", *m.A)
	}
	if m.R != nil {
		s += fmt.Sprintf(" R:%+v", *m.R)
	}
	if m.E != nil {
		s += fmt.Sprintf(" E:%+v", *m.E)
	}
	return s + "}"
}

func diffField(a, b krpc.Msg) string {
	va, vb := reflect.ValueOf(a), reflect.ValueOf(b)
	for i := 0; i < va.NumField(); i++ {
		fa, fb := va.Field(i), vb.Field(i)
		if !reflect.DeepEqual(fa.Interface(), fb.Interface()) {
			name := va.Type().Field(i).Name
			if fa.Kind() == reflect.Ptr && !fa.IsNil() && !fb.IsNil() {
				ea, eb := fa.Elem(), fb.Elem()
				for j := 0; j < ea.NumField(); j++ {
					if !reflect.DeepEqual(ea.Field(j).Interface(), eb.Field(j).Interface()) {
						return name + "." + ea.Type().Field(j).Name
					}
				}
			}
			return name
		}
	}
	return "?"
}

// ---- byte strings into the Msg decoder ----

func c15bytes(c *evid.Ctx) {
	r := c.R.Fork("bytes")
	g := &hostile.Gen{R: r, Costly: 2, Corpus: hostile.LoadCorpus(filepath.Join(repoDir(), "krpc/testdata/fuzz/Fuzz"))}
	c.Count("seed corpus entries loaded", len(g.Corpus))
	n := c.Scale(200000, 2000000)
	for i := 0; i < n; i++ {
		b, sig := g.Next()
		if len(b) > 70000 {
			continue
		}
		c.Eval(1)
		c.WAL("bytes %q", truncBytes(b))
		var m krpc.Msg
		err, p := safeUnmarshal(b, &m)
		if p != nil {
			c.Violation("msg-decoder-panics", fmt.Sprintf("input %q: %v", truncBytes(b), p), fmt.Sprintf("%q", b))
			continue
		}
		if _, trailing := err.(bencode.ErrUnusedTrailingBytes); err != nil && !trailing {
			c.Count("byte strings rejected by the decoder", 1)
			c.Distinct(gen.Hash64("rej", sig))
			continue
		}
		c.Count("byte strings that decode", 1)
		c.Distinct(gen.Hash64("dec", sig))
		e1, err, p := safeMarshal(m)
		if p != nil {
			c.Violation("re-encode-of-decoded-datagram-panics", fmt.Sprintf("input %q: %v", truncBytes(b), p), fmt.Sprintf("%q", b))
			continue
		}
		if err != nil {
			c.Violation("re-encode-of-decoded-datagram-fails", fmt.Sprintf("input %q decodes but re-encoding fails: %v", truncBytes(b), err), fmt.Sprintf("%q", b))
			continue
		}
		var m2 krpc.Msg
		err, p = safeUnmarshal(e1, &m2)
		if p != nil || err != nil {
			c.Violation("re-encoded-datagram-does-not-decode", fmt.Sprintf("input %q re-encoded to %q: err=%v panic=%v", truncBytes(b), truncBytes(e1), err, p), fmt.Sprintf("%q", b))
			continue
		}
		e2, err, p := safeMarshal(m2)
		if p != nil || err != nil {
			c.Violation("second-re-encode-fails", fmt.Sprintf("input %q: err=%v panic=%v", truncBytes(b), err, p), fmt.Sprintf("%q", b))
			continue
		}
		if !bytes.Equal(e1, e2) {
			c.Violation("re-encoding-is-not-a-fixpoint", fmt.Sprintf("input %q\nenc(dec(b))           = %q\nenc(dec(enc(dec(b)))) = %q", truncBytes(b), truncBytes(e1), truncBytes(e2)), fmt.Sprintf("%q", b))
		}
		if c.WantSample() && i%101 == 0 {
			c.Sample(map[string]any{"kind": "hostile datagram that decodes", "class": sig, "bytes": fmt.Sprintf("%q", truncBytes(b))})
		}
	}
}

func truncBytes(b []byte) []byte {
	if len(b) > 300 {
		return append(append([]byte(nil), b[:300]...), "..."...)
	}
	return b
}

func repoDir() string {
	if d := os.Getenv("VERIF_REPO"); d != "" {
		return d
	}
	return "/repo"
}

// ---- every exported binary/bencode decoder of the krpc package ----

type binDecoder struct {
	name string
	mk   func() encoding.BinaryUnmarshaler
	elem int // 0: not a compact list
}

func c15decoders(c *evid.Ctx) {
	r := c.R.Fork("decoders")
	decs := []binDecoder{
		{"NodeAddr", func() encoding.BinaryUnmarshaler { return new(krpc.NodeAddr) }, 0},
		{"NodeInfo", func() encoding.BinaryUnmarshaler { return new(krpc.NodeInfo) }, 0},
		{"CompactIPv4NodeAddrs", func() encoding.BinaryUnmarshaler { return new(krpc.CompactIPv4NodeAddrs) }, 6},
		{"CompactIPv6NodeAddrs", func() encoding.BinaryUnmarshaler { return new(krpc.CompactIPv6NodeAddrs) }, 18},
		{"CompactIPv4NodeInfo", func() encoding.BinaryUnmarshaler { return new(krpc.CompactIPv4NodeInfo) }, 26},
		{"CompactIPv6NodeInfo", func() encoding.BinaryUnmarshaler { return new(krpc.CompactIPv6NodeInfo) }, 38},
		{"CompactInfohashes", func() encoding.BinaryUnmarshaler { return new(krpc.CompactInfohashes) }, 20},
	}
	reps := c.Scale(8, 400)
	for _, d := range decs {
		maxLen := 2*38 + 1
		if d.elem != 0 {
			maxLen = 4*d.elem + 1
		}
		for l := 0; l <= maxLen; l++ {
			for rep := 0; rep < reps; rep++ {
				b := r.Bytes(l)
				if rep == 0 {
					b = make([]byte, l)
				}
				c.Eval(1)
				c.Count("UnmarshalBinary calls:"+d.name, 1)
				c.Distinct(gen.Hash64("bin", d.name, l))
				u := d.mk()
				err, p := func() (err error, p any) {
					defer func() { p = recover() }()
					return u.UnmarshalBinary(b), nil
				}()
				if p != nil {
					c.Violation("decoder-panics:"+d.name, fmt.Sprintf("%s.UnmarshalBinary on %d bytes %x: %v", d.name, l, b, p), nil)
					continue
				}
				if d.elem != 0 {
					if (l%d.elem == 0) != (err == nil) {
						c.Violation("compact-list-length-rule:"+d.name, fmt.Sprintf("%s: %d bytes (entry size %d): err=%v", d.name, l, d.elem, err), nil)
						continue
					}
					if err == nil {
						out, merr := u.(encoding.BinaryMarshaler).MarshalBinary()
						if merr != nil || !bytes.Equal(out, b) {
							c.Violation("compact-list-not-identical-after-reencode:"+d.name, fmt.Sprintf("%s: in %x out %x err %v", d.name, b, out, merr), nil)
						}
						if n := reflect.ValueOf(u).Elem().Len(); n != l/d.elem {
							c.Violation("compact-list-entry-count:"+d.name, fmt.Sprintf("%s: %d bytes gave %d entries", d.name, l, n), nil)
						}
					}
				}
				// The same bytes as a bencoded string through UnmarshalBencode.
				if bu, ok := d.mk().(bencode.Unmarshaler); ok {
					enc := append([]byte(fmt.Sprintf("%d:", l)), b...)
					_, p := func() (err error, p any) {
						defer func() { p = recover() }()
						return bu.UnmarshalBencode(enc), nil
					}()
					c.Count("UnmarshalBencode calls:"+d.name, 1)
					if p != nil {
						c.Violation("decoder-panics:"+d.name+".UnmarshalBencode", fmt.Sprintf("%q: %v", enc, p), nil)
					}
				}
			}
		}
	}
	// ID and Error, and every bencode decoder on hostile bencode (not only strings).
	bdecs := map[string]func() bencode.Unmarshaler{
		"ID":                   func() bencode.Unmarshaler { return new(krpc.ID) },
		"Error":                func() bencode.Unmarshaler { return new(krpc.Error) },
		"NodeAddr":             func() bencode.Unmarshaler { return new(krpc.NodeAddr) },
		"CompactIPv4NodeAddrs": func() bencode.Unmarshaler { return new(krpc.CompactIPv4NodeAddrs) },
		"CompactIPv6NodeAddrs": func() bencode.Unmarshaler { return new(krpc.CompactIPv6NodeAddrs) },
		"CompactIPv4NodeInfo":  func() bencode.Unmarshaler { return new(krpc.CompactIPv4NodeInfo) },
		"CompactIPv6NodeInfo":  func() bencode.Unmarshaler { return new(krpc.CompactIPv6NodeInfo) },
		"CompactInfohashes":    func() bencode.Unmarshaler { return new(krpc.CompactInfohashes) },
	}
	g := &hostile.Gen{R: r}
	listOfInts := map[string]bool{}
	inputs := [][]byte{[]byte(""), []byte("e"), []byte("le"), []byte("de"), []byte("i1e"), []byte("0:"), []byte("20:short"),
		[]byte("li201ee"), []byte("l3:abce"), []byte("li1ei2ee"), []byte("l1:a1:be"), []byte("lli1eee"), []byte("ld1:ai1eee"),
		[]byte("li99999999999999999999e1:ae"), []byte("19:aaaaaaaaaaaaaaaaaaa"), []byte("21:aaaaaaaaaaaaaaaaaaaaa"), []byte("20:aaaaaaaaaaaaaaaaaaaa")}
	// A compact list is a string. A bencoded list of small integers with the right count is not.
	for _, elem := range []int{6, 18, 20, 26, 38} {
		for _, k := range []int{1, 2} {
			b := []byte("l")
			for i := 0; i < elem*k; i++ {
				b = append(b, fmt.Sprintf("i%de", r.Intn(256))...)
			}
			inputs = append(inputs, append(b, 'e'))
			listOfInts[string(append(b, 'e'))] = true
		}
	}
	more := c.Scale(2000, 100000)
	for i := 0; i < more; i++ {
		b, _ := g.Next()
		if len(b) < 5000 {
			inputs = append(inputs, b)
		}
		if i%3 == 0 {
			inputs = append(inputs, []byte(fmt.Sprintf("%d:%s", r.Intn(50), r.Bytes(r.Intn(50)))))
		}
	}
	for name, mk := range bdecs {
		for _, in := range inputs {
			c.Eval(1)
			c.Count("UnmarshalBencode hostile inputs:"+name, 1)
			u := mk()
			err, p := func() (err error, p any) {
				defer func() { p = recover() }()
				return u.UnmarshalBencode(in), nil
			}()
			if p != nil {
				c.Violation("decoder-panics:"+name+".UnmarshalBencode", fmt.Sprintf("input %q: %v", truncBytes(in), p), nil)
				continue
			}
			if err == nil && listOfInts[string(in)] && strings.HasPrefix(name, "Compact") {
				c.Violation("compact-decoder-accepts-a-list-of-integers:"+name, fmt.Sprintf("%s.UnmarshalBencode accepted %q, which is not a string", name, truncBytes(in)), nil)
			}
			if name == "ID" && err == nil {
				// Accepted: must have been a 20-byte string, and re-encode to it.
				out, _ := u.(*krpc.ID).MarshalBencode()
				var back krpc.ID
				if back.UnmarshalBencode(out) != nil || back != *u.(*krpc.ID) {
					c.Violation("id-codec-roundtrip", fmt.Sprintf("input %q", in), nil)
				}
				if !bytes.HasPrefix(in, []byte("20:")) {
					// Over-long strings are truncated to 20 bytes by the ID decoder. The property only
					// demands the re-encode fixpoint (checked above), so this is counted, not judged.
					c.Count("observation: ID decoder accepted a string that is not 20 bytes (not judged)", 1)
				}
			}
			if name == "Error" && err == nil {
				e := u.(*krpc.Error)
				out, merr := e.MarshalBencode()
				var back krpc.Error
				if merr != nil || back.UnmarshalBencode(out) != nil || back != *e {
					c.Violation("error-codec-roundtrip", fmt.Sprintf("input %q -> %+v -> %q -> %+v", truncBytes(in), *e, out, back), nil)
				}
			}
		}
	}
}

func c15nodesFile(c *evid.Ctx) {
	r := c.R.Fork("nodesfile")
	dir, err := os.MkdirTemp("", "c15nodes")
	if err != nil {
		c.Inconclusive("temp dir: " + err.Error())
		return
	}
	defer os.RemoveAll(dir)
	n := c.Scale(400, 20000)
	for i := 0; i < n; i++ {
		fn := filepath.Join(dir, "nodes")
		c.Eval(1)
		if i%2 == 0 {
			// arbitrary bytes: must return, never panic; accepted iff a multiple of 38
			b := r.Bytes(r.Intn(200))
			os.WriteFile(fn, b, 0o644)
			ns, err, p := func() (ns []krpc.NodeInfo, err error, p any) {
				defer func() { p = recover() }()
				ns, err = dht.ReadNodesFromFile(fn)
				return
			}()
			c.Count("ReadNodesFromFile on arbitrary bytes", 1)
			c.Distinct(gen.Hash64("nodesfile-raw", len(b)))
			if p != nil {
				c.Violation("decoder-panics:ReadNodesFromFile", fmt.Sprintf("%d bytes %x: %v", len(b), b, p), nil)
			} else if (len(b)%38 == 0) != (err == nil) {
				c.Violation("nodes-file-length-rule", fmt.Sprintf("%d bytes: err=%v (%d nodes)", len(b), err, len(ns)), nil)
			}
			continue
		}
		var ns []krpc.NodeInfo
		for j := 0; j < r.Intn(20); j++ {
			ns = append(ns, krpc.NodeInfo{ID: r.ID(), Addr: krpc.NodeAddr{IP: genIP(r, gen.Pick(r, []int{4, 6})), Port: r.Intn(65536)}})
		}
		c.Count("nodes file write/read round trips", 1)
		c.Distinct(gen.Hash64("nodesfile-rt", len(ns)))
		if err := dht.WriteNodesToFile(ns, fn); err != nil {
			c.Violation("nodes-file-write-fails", err.Error(), nil)
			continue
		}
		back, err := dht.ReadNodesFromFile(fn)
		if err != nil || len(back) != len(ns) {
			c.Violation("nodes-file-roundtrip", fmt.Sprintf("wrote %d nodes, read %d, err=%v", len(ns), len(back), err), nil)
			continue
		}
		for j := range ns {
			if back[j].ID != ns[j].ID || !back[j].Addr.IP.Equal(ns[j].Addr.IP) || back[j].Addr.Port != ns[j].Addr.Port {
				c.Violation("nodes-file-roundtrip", fmt.Sprintf("entry %d: wrote %v read %v", j, ns[j], back[j]), nil)
				break
			}
		}
	}
}
