package main

import (
	"context"
	"errors"
	"fmt"
	"net"
	"os"
	"sync"
	"sync/atomic"
	"syscall"
	"time"

	"github.com/anacrolix/dht/v2"
	"github.com/anacrolix/dht/v2/bep44"
	"github.com/anacrolix/dht/v2/exts/getput"
	"github.com/anacrolix/dht/v2/int160"
	"github.com/anacrolix/dht/v2/krpc"

	"verifharness/benc"
	"verifharness/census"
	"verifharness/evid"
	"verifharness/gen"
	"verifharness/simnet"
	"verifharness/srv"
	"verifharness/tbl"
)

func init() { register("C19", c19) }

type c19obs struct {
	table  string
	peers  int
	puts   int
	cbs    int
	trans  int
}

// C19 — blocklisted addresses and passive mode are honoured on every path.
func c19(c *evid.Ctx) {
	r := c.R.Fork("c19")
	runs := c.Scale(120, 4000)
	for run := 0; run < runs && c.NumViolations() < 20; run++ {
		c19run(c, r, run)
	}
	c.Floor("inbound datagrams from blocked sources judged", 1)
	c.Floor("outbound attempts towards blocked addresses judged", 1)
}

// pendingOK: open queries, including senders the harness holds inside the resend-delay callback.
func c19pendingOK(g census.G) bool {
	return srv.PendingQueryOK(g) || g.Parked() && (g.Has("transactionSender") || g.Has("transactionQuerySender"))
}

func c19run(c *evid.Ctx, r *gen.Rand, run int) {
	passive := run%4 == 3
	atConstruction := run%2 == 0
	bl := tbl.NewBlocklist()
	ps := &recPeerStore{}
	st := &recStore{inner: bep44.NewMemory()}
	an := &recAnnounce{}
	// Queries opened before the block have NumTries 3; their resend waits until the block is in
	// place, so that the resend is attempted against the new list.
	blockInPlace := make(chan struct{})
	var gmu sync.Mutex
	gdest := map[int64]string{}   // sender goroutine -> destination of its last write
	resend := map[string]bool{}   // destinations whose open query is to attempt a resend after the block
	var delay = func() time.Duration {
		gmu.Lock()
		d := gdest[curGoroutine()]
		rs := resend[d]
		gmu.Unlock()
		if rs {
			<-blockInPlace
			return time.Millisecond
		}
		return time.Hour
	}
	short := false
	cfg := dht.ServerConfig{NoSecurity: true, Passive: passive, PeerStore: ps, Store: st, OnAnnouncePeer: an.cb,
		QueryResendDelay: func() time.Duration {
			if short {
				return time.Millisecond
			}
			return delay()
		}}
	if atConstruction {
		cfg.IPBlocklist = bl
	}
	// An application hook that lets every query through must not change any of this: half of the
	// passive nodes and a third of the others run with one.
	var hookCalls atomic.Int64
	defer func() { c.Count("OnQuery hook calls (hook returned true)", int(hookCalls.Load())) }()
	if passive && (run/4)%2 == 0 || !passive && run%3 == 1 {
		cfg.OnQuery = func(m *krpc.Msg, a net.Addr) bool {
			hookCalls.Add(1)
			return true
		}
		c.Count("nodes run with an OnQuery hook that lets everything through (passive="+fmt.Sprint(passive)+")", 1)
	}
	// blocked hosts: single addresses (v4, v6, mapped) and a /16
	var X []*net.UDPAddr
	mk := func(form int) *net.UDPAddr {
		switch form % 4 {
		case 0:
			return &net.UDPAddr{IP: r.PublicIPv4(), Port: r.Port()}
		case 1:
			return &net.UDPAddr{IP: r.PublicIPv6(), Port: r.Port()}
		case 2:
			return &net.UDPAddr{IP: gen.V4Mapped(r.PublicIPv4()), Port: r.Port()}
		}
		return &net.UDPAddr{IP: net.IP{77, 88, byte(r.Intn(256)), byte(1 + r.Intn(250))}, Port: r.Port()}
	}
	for i := 0; i < 4; i++ {
		X = append(X, mk(i))
	}
	blockNow := func() {
		for i, x := range X {
			if i%4 == 3 {
				bl.AddNet16(77, 88)
			} else {
				bl.Add(x.IP)
			}
		}
	}
	if atConstruction {
		blockNow()
	}
	n, err := srv.New(cfg)
	if err != nil {
		c.Inconclusive(err.Error())
		return
	}
	defer n.Close()
	n.Conn.SetHook(func(d simnet.Datagram) error {
		gmu.Lock()
		gdest[curGoroutine()] = d.To.String()
		gmu.Unlock()
		return nil
	})
	desc := fmt.Sprintf("passive=%v blocklist %s", passive, map[bool]string{true: "at construction", false: "installed later"}[atConstruction])
	c.WAL("run %d %s", run, desc)
	covered := func(a *net.UDPAddr) bool { return bl.Covers(a.IP) }
	observe := func() c19obs {
		snap := n.S.VerifTable()
		s := ""
		for _, e := range snap.Nodes {
			s += fmt.Sprintf("%x@%s/%d/%d/%v;", e.Id[:4], e.Addr, e.LastGotQuery.UnixNano(), e.LastGotResponse.UnixNano(), e.FailedLastQuestionablePing)
		}
		ps.mu.Lock()
		np := 0
		for _, v := range ps.added {
			np += len(v)
		}
		ps.mu.Unlock()
		st.mu.Lock()
		npu := 0
		for _, v := range st.puts {
			npu += v
		}
		st.mu.Unlock()
		an.mu.Lock()
		nc := 0
		for _, v := range an.got {
			nc += v
		}
		an.mu.Unlock()
		return c19obs{sortString(s), np, npu, nc, n.S.Stats().OutstandingTransactions}
	}
	checkNoSendToBlocked := func(what string, mark int) {
		for _, d := range n.Conn.Captured(mark) {
			if covered(d.To) {
				c.Violation("datagram-sent-to-blocked-address:"+what, fmt.Sprintf("%s: %s wrote %q to %v", desc, what, truncBytes(d.B), d.To), nil)
				return
			}
		}
	}
	tokens := map[string]string{}
	type open struct {
		x      *net.UDPAddr
		t      string
		cancel context.CancelFunc
		done   chan dht.QueryResult
		tries  int
	}
	var opened []open
	if !atConstruction {
		// Before the block: X obtain tokens, enter the table, and we open queries to them.
		for _, x := range X {
			if !passive {
				if tok, err := n.Token(x, r.ID()); err == nil {
					tokens[x.String()] = tok
				}
			} else {
				n.Ask(srv.Query("ping", "p", benc.Dict{"id": r.ID()}), x)
			}
		}
		for _, x := range X {
			mark := n.Conn.NumCaptured()
			ctx, cancel := context.WithCancel(context.Background())
			done := make(chan dht.QueryResult, 1)
			x := x
			tries := 1
			if len(opened)%2 == 0 {
				tries = 3
				gmu.Lock()
				resend[x.String()] = true
				gmu.Unlock()
			}
			go func() { done <- n.S.Query(ctx, dht.NewAddr(x), "ping", dht.QueryInput{NumTries: tries}) }()
			t := ""
			deadline := time.Now().Add(20 * time.Second)
			for t == "" && time.Now().Before(deadline) {
				for _, d := range n.Conn.Captured(mark) {
					if d.To.String() == x.String() {
						if m, err := benc.DecodeDict(d.B); err == nil && m["y"] == "q" {
							t, _ = benc.Str(m, "t")
						}
					}
				}
				time.Sleep(20 * time.Microsecond)
			}
			opened = append(opened, open{x, t, cancel, done, tries})
		}
		if err := n.Quiesce(c19pendingOK); err != nil {
			c.Inconclusive(err.Error())
			return
		}
		blockNow()
		n.S.SetIPBlockList(bl)
	}
	blockMark := n.Conn.NumCaptured()
	close(blockInPlace)
	// The resends are attempted now and must be refused: those queries end with an error. Wait for
	// exactly that before going on, so that nothing of it is mistaken for an effect of a later datagram.
	stillOpen := opened[:0:0]
	for _, o := range opened {
		if o.tries == 1 {
			stillOpen = append(stillOpen, o)
			continue
		}
		select {
		case res := <-o.done:
			if res.Err == nil {
				c.Violation("query-completed-by-datagram-from-blocked-source", fmt.Sprintf("%s: query to %v returned y=%q although nothing answered it", desc, o.x, res.Reply.Y), nil)
			}
			c.Count("queries opened before the block whose resend was refused afterwards", 1)
		case <-time.After(30 * time.Second):
			c.Inconclusive(desc + ": a query whose resend should have been refused is still running")
			return
		}
	}
	opened = stillOpen
	if err := n.Quiesce(c19pendingOK); err != nil {
		c.Inconclusive(err.Error())
		return
	}
	// ---- inbound from blocked sources ----
	// Start with the source the node heard from last before the block (a per-source verdict cached
	// across the list change would show here), then the others in PRNG order.
	inOrder := append([]*net.UDPAddr(nil), X...)
	gen.Shuffle(r, inOrder[:len(inOrder)-1])
	inOrder[0], inOrder[len(inOrder)-1] = inOrder[len(inOrder)-1], inOrder[0]
	for _, x := range inOrder {
		src := &net.UDPAddr{IP: x.IP, Port: x.Port}
		tok := tokens[x.String()]
		msgs := [][]byte{
			srv.Query("ping", "b1", benc.Dict{"id": r.ID()}),
			srv.Query("find_node", "b2", benc.Dict{"id": r.ID(), "target": r.ID()}),
			srv.Query("get_peers", "b3", benc.Dict{"id": r.ID(), "info_hash": r.ID()}),
			srv.Query("get", "b4", benc.Dict{"id": r.ID(), "target": r.ID()}),
			srv.Query("announce_peer", "b5", benc.Dict{"id": r.ID(), "info_hash": r.ID(), "port": int64(1), "token": tok}),
			srv.Query("put", "b6", benc.Dict{"id": r.ID(), "v": string(r.Bytes(16)), "seq": int64(1), "token": tok}),
			srv.Query("nosuch", "b7", nil),
			srv.Response(string(r.Bytes(2)), benc.Dict{"id": r.ID()}),
		}
		for _, o := range opened {
			if o.x.String() == x.String() && o.t != "" {
				msgs = append(msgs, srv.Response(o.t, benc.Dict{"id": r.ID()})) // the reply to our open query
			}
		}
		for _, m := range msgs {
			before := observe()
			mark := n.Conn.NumCaptured()
			n.Conn.Inject(m, src)
			if err := n.Quiesce(c19pendingOK); err != nil {
				// The node does not settle after a datagram from a blocked source: if its API or
				// its serve loop is stuck, that datagram had an effect.
				cf := c01cfg{passive: passive}
				if !apiReturns(c, n, desc+" after a datagram from blocked source "+src.String()) || !c01probe(c, n, cf, &gen.AddrAlloc{}, desc+" after a datagram from blocked source "+src.String()) {
					return
				}
				c.Inconclusive(err.Error())
				return
			}
			after := observe()
			c.Eval(1)
			c.Count("inbound datagrams from blocked sources judged", 1)
			c.Distinct(gen.Hash64("in", len(x.IP), x.IP.To4() != nil, string(m[:12]), passive, atConstruction))
			if n.Conn.NumCaptured() != mark {
				d := n.Conn.Captured(mark)[0]
				c.Violation("reaction-to-datagram-from-blocked-source", fmt.Sprintf("%s: %q from %v caused %q to %v", desc, truncBytes(m), src, truncBytes(d.B), d.To), nil)
			}
			if before != after {
				c.Violation("datagram-from-blocked-source-had-an-effect", fmt.Sprintf("%s: %q from %v: before %+v after %+v", desc, truncBytes(m), src, before, after), nil)
			}
		}
	}
	// the queries opened before the block must not have been completed by anything; they may have
	// failed on a resend that the new list refused
	for _, o := range opened {
		select {
		case res := <-o.done:
			if res.Err == nil {
				c.Violation("query-completed-by-datagram-from-blocked-source", fmt.Sprintf("%s: query to %v returned err=%v y=%q", desc, o.x, res.Err, res.Reply.Y), nil)
			}
			c.Count("queries opened before the block that ended with an error afterwards", 1)
		default:
			o.cancel()
			res := <-o.done
			if !errors.Is(res.Err, context.Canceled) {
				c.Violation("query-completed-by-datagram-from-blocked-source", fmt.Sprintf("%s: cancelled query returned %v", desc, res.Err), nil)
			}
		}
	}
	n.Quiesce(nil)
	for _, d := range n.Conn.Captured(blockMark) {
		if covered(d.To) {
			c.Violation("datagram-sent-to-blocked-address:resend-of-a-query-opened-before-the-block", fmt.Sprintf("%s: %q written to %v after SetIPBlockList had returned", desc, truncBytes(d.B), d.To), nil)
			break
		}
	}
	// ---- outbound API calls towards blocked addresses ----
	short = true
	for _, x := range X {
		mark := n.Conn.NumCaptured()
		addr := dht.NewAddr(x)
		calls := map[string]func(){
			"Ping":     func() { n.S.Ping(x) },
			"FindNode": func() { n.S.FindNode(addr, int160.FromByteArray(r.ID()), dht.QueryRateLimiting{}) },
			"GetPeers": func() { n.S.GetPeers(context.Background(), addr, int160.FromByteArray(r.ID()), false, dht.QueryRateLimiting{}) },
			"Get":      func() { n.S.Get(context.Background(), addr, r.ID(), nil, dht.QueryRateLimiting{}) },
			"Put":      func() { n.S.Put(context.Background(), addr, bep44.Put{V: string(r.Bytes(10)), Seq: 1}, "tok", dht.QueryRateLimiting{}) },
			"AddNode(zero id)": func() {
				n.S.AddNode(krpc.NodeInfo{Addr: krpc.NodeAddr{IP: x.IP, Port: x.Port}})
			},
			"questionable ping": func() {
				n.S.VerifQuestionablePing(context.Background(), addr, krpc.ID(r.ID()))
			},
		}
		for name, f := range calls {
			f()
			n.Quiesce(nil)
			c.Eval(1)
			c.Count("outbound attempts towards blocked addresses judged", 1)
			c.Distinct(gen.Hash64("out", name, len(x.IP), passive, atConstruction))
			checkNoSendToBlocked(name, mark)
		}
	}
	// ---- traversals over a swarm that lists blocked addresses ----
	swarm := newSwarm(r.Fork("swarm"), 14, 10, false)
	for i, x := range X {
		p := &simPeer{addr: x, id: r.ID(), mode: "ok"}
		swarm.peers[x.String()] = p
		swarm.order = append(swarm.order, p)
		_ = i
	}
	gen.Shuffle(r, swarm.order)
	n2cfg := cfg
	n2cfg.IPBlocklist = bl
	n2cfg.StartingNodes = func() ([]dht.Addr, error) {
		out := []dht.Addr{dht.NewAddr(X[0]), dht.NewAddr(X[3])}
		for i := 0; i < 3; i++ {
			out = append(out, dht.NewAddr(swarm.order[i].addr))
		}
		return out, nil
	}
	n2, err := srv.New(n2cfg)
	if err != nil {
		c.Inconclusive(err.Error())
		return
	}
	defer n2.Close()
	n2.Conn.SetHook(swarm.hook(n2))
	var tried atomic.Int64 // addresses the lookup reports having tried (-1: not reported)
	ops := map[string]func(){
		"Bootstrap": func() {
			st, err := n2.S.Bootstrap()
			tried.Store(-1)
			if err == nil {
				tried.Store(int64(st.NumAddrsTried))
			}
		},
		"Announce": func() {
			tried.Store(-1)
			a, err := n2.S.Announce(r.ID(), 6881, false)
			if err == nil {
				for range a.Peers {
				}
				<-a.Finished()
				tried.Store(int64(a.NumContacted()))
			}
		},
		"getput.Get": func() {
			ctx, cancel := context.WithTimeout(context.Background(), 30*time.Second)
			defer cancel()
			getput.Get(ctx, r.ID(), n2.S, nil, nil)
		},
		"getput.Put": func() {
			ctx, cancel := context.WithTimeout(context.Background(), 30*time.Second)
			defer cancel()
			v := string(r.Bytes(12))
			getput.Put(ctx, sha1Of(benc.Encode(v)), n2.S, nil, func(seq int64) bep44.Put { return bep44.Put{V: v, Seq: seq} })
		},
	}
	for name, f := range ops {
		mark := n2.Conn.NumCaptured()
		done := make(chan struct{})
		go func() { f(); close(done) }()
		select {
		case <-done:
		case <-time.After(60 * time.Second):
			c.Inconclusive(desc + ": " + name + " did not return (C14 judges that)")
			return
		}
		n2.Quiesce(nil)
		c.Eval(1)
		c.Count("traversals over networks naming blocked addresses", 1)
		sent := n2.Conn.NumCaptured() - mark
		c.Count("traversal datagrams inspected", sent)
		c.Distinct(gen.Hash64("trav", name, passive))
		if name == "Bootstrap" || name == "Announce" {
			// What the lookup says it tried must be what reached the socket: an attempt on a blocked
			// address is refused before the socket, but it is still the lookup querying it.
			dests := map[string]bool{}
			for _, d := range n2.Conn.Captured(mark) {
				if m, err := benc.DecodeDict(d.B); err == nil && m["y"] == "q" && (m["q"] == "find_node" || m["q"] == "get_peers") {
					dests[d.To.String()] = true
				}
			}
			if t := tried.Load(); t >= 0 && int(t) != len(dests) {
				c.Violation("lookup-tried-addresses-that-never-reached-the-socket:"+name, fmt.Sprintf("%s: %s reports %d addresses tried, %d distinct destinations were written to (the network names blocked addresses)", desc, name, t, len(dests)), nil)
			}
			c.Count("lookups whose tried-count was compared with the socket", 1)
		} else {
			tried.Store(-1)
		}
		for _, d := range n2.Conn.Captured(mark) {
			if covered(d.To) {
				c.Violation("datagram-sent-to-blocked-address:"+name, fmt.Sprintf("%s: %s wrote %q to %v", desc, name, truncBytes(d.B), d.To), nil)
				break
			}
		}
	}
	// ---- the list changes while a write to the address is failing at the socket ----
	{
		z := &net.UDPAddr{IP: r.PublicIPv4(), Port: r.Port()}
		errno := gen.Pick(r, []syscall.Errno{syscall.ENOBUFS, syscall.EAGAIN, syscall.EPERM, syscall.ENETUNREACH})
		var first atomic.Int64
		first.Store(-1)
		n.Conn.SetHook(func(d simnet.Datagram) error {
			if d.To.String() != z.String() {
				return nil
			}
			if first.CompareAndSwap(-1, int64(d.Seq)) {
				bl.Add(z.IP)
				n.S.SetIPBlockList(bl)
				return &net.OpError{Op: "write", Net: "udp", Addr: d.To, Err: os.NewSyscallError("sendto", errno)}
			}
			return nil
		})
		n.S.Query(context.Background(), dht.NewAddr(z), "ping", dht.QueryInput{NumTries: 3})
		n.Quiesce(nil)
		c.Eval(1)
		c.Count("list changes during a failing socket write judged", 1)
		c.Distinct(gen.Hash64("errno", int(errno), passive))
		if f := first.Load(); f >= 0 {
			for _, d := range n.Conn.Captured(int(f) + 1) {
				if d.To.String() == z.String() {
					c.Violation("datagram-sent-to-blocked-address:after-a-failed-write-during-which-the-list-changed", fmt.Sprintf("%s: the first write to %v failed with %v while SetIPBlockList covering it completed; %q was written to it afterwards", desc, z, errno, truncBytes(d.B)), nil)
					break
				}
			}
		}
	}
	// ---- passive / read-only flag on everything both servers sent ----
	for _, nn := range []*srv.Node{n, n2} {
		for _, d := range nn.Conn.Captured(0) {
			m, err := benc.DecodeDict(d.B)
			if err != nil {
				continue
			}
			c.Count("outgoing datagrams inspected for ro / passive", 1)
			ro, _ := benc.Int(m, "ro")
			switch m["y"] {
			case "q":
				if passive && ro != 1 {
					c.Violation("passive-node-query-without-ro", fmt.Sprintf("%s: %q", desc, truncBytes(d.B)), nil)
				}
				if !passive && ro != 0 {
					c.Violation("non-passive-node-sets-ro", fmt.Sprintf("%s: %q", desc, truncBytes(d.B)), nil)
				}
			case "r", "e":
				if passive {
					c.Violation("passive-node-answered-a-query", fmt.Sprintf("%s: %q to %v", desc, truncBytes(d.B), d.To), nil)
				}
			}
		}
	}
	// ---- passive: every method from an unblocked source gets nothing; non-passive control ----
	y := &net.UDPAddr{IP: r.PublicIPv4(), Port: r.Port()}
	for _, m := range [][]byte{
		srv.Query("ping", "y1", benc.Dict{"id": r.ID()}),
		srv.Query("find_node", "y2", nil),
		srv.Query("get_peers", "y3", nil),
		srv.Query("get", "y4", nil),
		srv.Query("announce_peer", "y5", nil),
		srv.Query("put", "y6", nil),
		srv.Query("nosuch", "y7", nil),
		srv.Query("get_peers", "y8", benc.Dict{"id": r.ID(), "info_hash": r.ID()}),
	} {
		rs, err := n.Ask(m, &net.UDPAddr{IP: y.IP, Port: r.Port()})
		if err != nil {
			c.Inconclusive(err.Error())
			return
		}
		c.Eval(1)
		c.Count("queries from an unblocked source judged (passive on/off)", 1)
		if passive && len(rs) != 0 {
			c.Violation("passive-node-answered-a-query", fmt.Sprintf("%s: %q got %q", desc, truncBytes(m), truncBytes(rs[0].Raw)), nil)
		}
		if !passive && len(rs) != 1 {
			c.Violation("unblocked-source-not-answered (observation control)", fmt.Sprintf("%s: %q got %d replies", desc, truncBytes(m), len(rs)), nil)
		}
	}
	if c.WantSample() && run%17 == 0 {
		c.Sample(map[string]any{"run": desc, "blocked": fmt.Sprint(X)})
	}
	_ = simnet.Now
}

func sortString(s string) string {
	parts := splitSemi(s)
	return fmt.Sprint(sortedStrings(parts))
}

func splitSemi(s string) (out []string) {
	cur := ""
	for _, ch := range s {
		if ch == ';' {
			out = append(out, cur)
			cur = ""
		} else {
			cur += string(ch)
		}
	}
	return
}
