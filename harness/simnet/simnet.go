// Package simnet replaces the UDP socket of a dht.Server (ServerConfig.Conn) with an in-process
// net.PacketConn that the monitors feed and observe.
package simnet

import (
	"errors"
	"net"
	"sync"
	"time"
)

var epoch = time.Now()

// Monotonic nanoseconds since process start; the single clock for all recorded events.
func Now() int64 { return int64(time.Since(epoch)) }

type Datagram struct {
	Seq int
	At  int64 // Now() when WriteTo was entered
	To  *net.UDPAddr
	B   []byte
	Err error // the error WriteTo returned (fault injection), nil if delivered
}

func (d Datagram) ToKey() string { return d.To.String() }

type inPkt struct {
	b    []byte
	from net.Addr
}

// WriteHook sees every outbound datagram (already recorded) and may return an error to make the
// write fail. It runs on the writer's goroutine without any simnet lock held, so it may Inject.
type WriteHook func(d Datagram) error

type FakeConn struct {
	local *net.UDPAddr

	mu          sync.Mutex
	cond        *sync.Cond
	queue       []inPkt
	closed      bool
	injected    int
	delivered   int
	readEntries int
	captured    []Datagram
	hook        WriteHook
	writing     int // WriteTo calls currently inside the hook
	wrapAddrs   bool
}

// SimAddr is a net.Addr that is neither *net.UDPAddr nor *net.TCPAddr: what a tunnelled, wrapped or
// simulated transport hands to the library. The library can only use its String form.
type SimAddr struct{ U *net.UDPAddr }

func (a SimAddr) Network() string { return "sim" }
func (a SimAddr) String() string  { return a.U.String() }

// SetWrapAddrs makes ReadFrom report every source as a SimAddr instead of a *net.UDPAddr. WriteTo
// accepts both; captured datagrams always carry the plain UDP address.
func (c *FakeConn) SetWrapAddrs(on bool) {
	c.mu.Lock()
	c.wrapAddrs = on
	c.mu.Unlock()
}

func NewConn(local *net.UDPAddr) *FakeConn {
	c := &FakeConn{local: local}
	c.cond = sync.NewCond(&c.mu)
	return c
}

func (c *FakeConn) SetHook(h WriteHook) {
	c.mu.Lock()
	c.hook = h
	c.mu.Unlock()
}

// Inject queues a datagram as if it had arrived from `from`. The bytes and the address are copied,
// because the server keeps references to the source IP (peer store, routing table).
func (c *FakeConn) Inject(b []byte, from *net.UDPAddr) {
	cp := append([]byte(nil), b...)
	addr := &net.UDPAddr{IP: append(net.IP(nil), from.IP...), Port: from.Port, Zone: from.Zone}
	c.mu.Lock()
	if !c.closed {
		if c.wrapAddrs {
			c.queue = append(c.queue, inPkt{cp, SimAddr{addr}})
		} else {
			c.queue = append(c.queue, inPkt{cp, addr})
		}
		c.injected++
	}
	c.mu.Unlock()
	c.cond.Broadcast()
}

// InjectRawAddr is Inject for arbitrary net.Addr implementations.
func (c *FakeConn) InjectRawAddr(b []byte, from net.Addr) {
	cp := append([]byte(nil), b...)
	c.mu.Lock()
	if !c.closed {
		c.queue = append(c.queue, inPkt{cp, from})
		c.injected++
	}
	c.mu.Unlock()
	c.cond.Broadcast()
}

func (c *FakeConn) ReadFrom(b []byte) (int, net.Addr, error) {
	c.mu.Lock()
	defer c.mu.Unlock()
	c.readEntries++
	c.cond.Broadcast()
	for len(c.queue) == 0 && !c.closed {
		c.cond.Wait()
	}
	if c.closed {
		return 0, nil, net.ErrClosed
	}
	p := c.queue[0]
	c.queue = c.queue[1:]
	n := copy(b, p.b)
	c.delivered++
	return n, p.from, nil
}

var ErrInjectedWriteFailure = errors.New("simnet: injected write failure")

// ErrShortWrite, returned by a hook, makes WriteTo report that only half of the datagram was
// written, with a nil error (what a PacketConn is allowed to do).
var ErrShortWrite = errors.New("simnet: short write")

func (c *FakeConn) WriteTo(b []byte, addr net.Addr) (int, error) {
	ua, ok := addr.(*net.UDPAddr)
	if sa, isSim := addr.(SimAddr); isSim {
		ua, ok = sa.U, true
	}
	if !ok {
		return 0, errors.New("simnet: not a UDP address")
	}
	d := Datagram{
		At: Now(),
		To: &net.UDPAddr{IP: append(net.IP(nil), ua.IP...), Port: ua.Port},
		B:  append([]byte(nil), b...),
	}
	c.mu.Lock()
	if c.closed {
		c.mu.Unlock()
		return 0, net.ErrClosed
	}
	d.Seq = len(c.captured)
	c.captured = append(c.captured, d)
	h := c.hook
	c.writing++
	c.mu.Unlock()
	var err error
	if h != nil {
		err = h(d)
	}
	c.mu.Lock()
	c.writing--
	if err != nil && d.Seq < len(c.captured) {
		c.captured[d.Seq].Err = err
	}
	c.mu.Unlock()
	c.cond.Broadcast()
	if err == ErrShortWrite {
		return len(b) / 2, nil
	}
	if err != nil {
		return 0, err
	}
	return len(b), nil
}

func (c *FakeConn) Close() error {
	c.mu.Lock()
	c.closed = true
	c.mu.Unlock()
	c.cond.Broadcast()
	return nil
}

func (c *FakeConn) LocalAddr() net.Addr                { return c.local }
func (c *FakeConn) SetDeadline(t time.Time) error      { return nil }
func (c *FakeConn) SetReadDeadline(t time.Time) error  { return nil }
func (c *FakeConn) SetWriteDeadline(t time.Time) error { return nil }

// Drained reports whether every injected datagram has been handed to the reader AND the reader has
// come back for more since (so its handling of the last one, up to the point where it spawns
// goroutines, is over), and no WriteTo is in progress.
func (c *FakeConn) Drained() bool {
	c.mu.Lock()
	defer c.mu.Unlock()
	return c.drainedLocked()
}

func (c *FakeConn) drainedLocked() bool {
	return len(c.queue) == 0 && c.delivered == c.injected && c.readEntries == c.delivered+1 && c.writing == 0
}

// Counters for evidence and for cheap change detection between polls.
func (c *FakeConn) Counters() (injected, delivered, written int) {
	c.mu.Lock()
	defer c.mu.Unlock()
	return c.injected, c.delivered, len(c.captured)
}

// Captured returns a copy of the capture log from index `from` on.
func (c *FakeConn) Captured(from int) []Datagram {
	c.mu.Lock()
	defer c.mu.Unlock()
	if from > len(c.captured) {
		from = len(c.captured)
	}
	return append([]Datagram(nil), c.captured[from:]...)
}

func (c *FakeConn) NumCaptured() int {
	c.mu.Lock()
	defer c.mu.Unlock()
	return len(c.captured)
}

// ResetCapture drops the capture log (used between scenarios on a long-lived server to bound
// memory); sequence numbers restart.
func (c *FakeConn) ResetCapture() {
	c.mu.Lock()
	c.captured = nil
	c.mu.Unlock()
}

// Drained0 is Drained ignoring writes in progress: the inbound side alone (queue empty, everything
// handed to the reader, reader back in ReadFrom).
func (c *FakeConn) Drained0() bool {
	c.mu.Lock()
	defer c.mu.Unlock()
	return len(c.queue) == 0 && c.delivered == c.injected && c.readEntries == c.delivered+1
}
