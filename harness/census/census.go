// Package census answers "is any goroutine of the library still running or parked?" from the
// runtime's own goroutine dump. It is how the monitors define quiescence (nothing more will be
// sent or stored as a consequence of what was injected) and detect leaked goroutines.
package census

import (
	"fmt"
	"regexp"
	"runtime"
	"strings"
	"time"
)

const ModulePrefix = "github.com/anacrolix/dht/v2"

type G struct {
	ID     string
	State  string   // e.g. "select", "chan receive", "runnable", "sync.Cond.Wait"
	Funcs  []string // function names, innermost first
	Raw    string
	Module bool // has a frame in the library, or was started by the library
}

var hdr = regexp.MustCompile(`^goroutine (\d+) \[([^\]]*)\]:`)

// All parses a full goroutine dump.
func All() []G {
	buf := make([]byte, 1<<20)
	for {
		n := runtime.Stack(buf, true)
		if n < len(buf) {
			buf = buf[:n]
			break
		}
		buf = make([]byte, 2*len(buf))
	}
	return Parse(string(buf))
}

func Parse(dump string) (out []G) {
	for _, blk := range strings.Split(dump, "\n\n") {
		blk = strings.TrimSpace(blk)
		if blk == "" {
			continue
		}
		lines := strings.Split(blk, "\n")
		m := hdr.FindStringSubmatch(lines[0])
		if m == nil {
			continue
		}
		g := G{ID: m[1], Raw: blk}
		st := m[2]
		if i := strings.Index(st, ","); i >= 0 {
			st = st[:i]
		}
		g.State = st
		for _, l := range lines[1:] {
			if strings.HasPrefix(l, "\t") || strings.HasPrefix(l, " ") {
				continue
			}
			fn := l
			if strings.HasPrefix(fn, "created by ") {
				fn = strings.TrimPrefix(fn, "created by ")
				if i := strings.Index(fn, " in goroutine"); i >= 0 {
					fn = fn[:i]
				}
				// The creator is not on the stack; record it separately with a marker.
				g.Funcs = append(g.Funcs, "created-by:"+fn)
				if strings.HasPrefix(fn, ModulePrefix) {
					g.Module = true
				}
				continue
			}
			if i := strings.LastIndex(fn, "("); i >= 0 {
				fn = fn[:i]
			}
			g.Funcs = append(g.Funcs, fn)
			if strings.HasPrefix(fn, ModulePrefix) {
				g.Module = true
			}
		}
		out = append(out, g)
	}
	return
}

// Has reports whether any on-stack frame's function name contains sub.
func (g G) Has(sub string) bool {
	for _, f := range g.Funcs {
		if !strings.HasPrefix(f, "created-by:") && strings.Contains(f, sub) {
			return true
		}
	}
	return false
}

// CreatedBy reports whether the goroutine was started by a function whose name contains sub.
func (g G) CreatedBy(sub string) bool {
	for _, f := range g.Funcs {
		if strings.HasPrefix(f, "created-by:") && strings.Contains(f, sub) {
			return true
		}
	}
	return false
}

func (g G) Parked() bool {
	switch g.State {
	case "select", "chan receive", "chan send", "sync.Cond.Wait", "semacquire", "sync.Mutex.Lock",
		"sync.RWMutex.Lock", "sync.RWMutex.RLock", "sync.WaitGroup.Wait", "select (no cases)", "sleep",
		"chan receive (nil chan)", "chan send (nil chan)":
		return true
	}
	return false
}

// Module returns the goroutines with at least one on-stack frame in the library, minus those for
// which ignore returns true.
func Module(ignore func(G) bool) (out []G) {
	for _, g := range All() {
		if !g.Module {
			continue
		}
		if ignore != nil && ignore(g) {
			continue
		}
		out = append(out, g)
	}
	return
}

// ServeLoop matches a live serve loop blocked in the fake socket.
func ServeLoop(g G) bool {
	return g.Has("(*Server).serve") && g.Has("simnet.(*FakeConn).ReadFrom")
}

// WaitNone polls until no library goroutine other than the ignored ones exists, and returns the
// offenders still there when the time runs out (nil = quiet). The wall-clock limit is a watchdog:
// callers treat "not quiet" together with the dump, never the elapsed time itself, as the finding.
func WaitNone(ignore func(G) bool, limit time.Duration) []G {
	deadline := time.Now().Add(limit)
	sleep := 50 * time.Microsecond
	for {
		gs := Module(ignore)
		if len(gs) == 0 {
			return nil
		}
		if time.Now().After(deadline) {
			return gs
		}
		time.Sleep(sleep)
		if sleep < 5*time.Millisecond {
			sleep *= 2
		}
	}
}

// Stuck decides between "leaked" and "still working": the same goroutine IDs parked in two dumps
// taken gap apart.
func Stuck(ignore func(G) bool, gap time.Duration) (stuck []G) {
	first := map[string]G{}
	for _, g := range Module(ignore) {
		if g.Parked() {
			first[g.ID] = g
		}
	}
	if len(first) == 0 {
		return nil
	}
	time.Sleep(gap)
	for _, g := range Module(ignore) {
		if f, ok := first[g.ID]; ok && g.Parked() && topFrame(f) == topFrame(g) {
			stuck = append(stuck, g)
		}
	}
	return
}

func topFrame(g G) string {
	for _, f := range g.Funcs {
		if strings.HasPrefix(f, ModulePrefix) {
			return f
		}
	}
	return ""
}

func Describe(gs []G) string {
	var sb strings.Builder
	for _, g := range gs {
		fmt.Fprintf(&sb, "goroutine %s [%s] %s\n", g.ID, g.State, topFrame(g))
	}
	return sb.String()
}

func Dump(gs []G) string {
	var sb strings.Builder
	for _, g := range gs {
		sb.WriteString(g.Raw)
		sb.WriteString("\n\n")
	}
	return sb.String()
}
