// Package ref holds the independent reference implementations the oracles compare against. Nothing
// here imports the library under test.
package ref

import (
	"bytes"
	"crypto/sha1"
	"net"
	"sort"
)

type ID = [20]byte

func Xor(a, b ID) (d ID) {
	for i := range a {
		d[i] = a[i] ^ b[i]
	}
	return
}

// CmpDist compares d(a,t) with d(b,t) as unsigned 160-bit big-endian integers.
func CmpDist(a, b, t ID) int {
	da, db := Xor(a, t), Xor(b, t)
	return bytes.Compare(da[:], db[:])
}

// SharedPrefix is the number of leading bits a and b have in common (160 if equal).
func SharedPrefix(a, b ID) int {
	for i := 0; i < 20; i++ {
		x := a[i] ^ b[i]
		if x != 0 {
			n := 0
			for x&0x80 == 0 {
				x <<= 1
				n++
			}
			return i*8 + n
		}
	}
	return 160
}

// BucketIndex per the property: the length of the prefix shared with the root.
func BucketIndex(root, id ID) int { return SharedPrefix(root, id) }

// ---- BEP 42 ----

// crc32c bitwise, reflected polynomial 0x82F63B78, no tables.
func CRC32C(b []byte) uint32 {
	crc := ^uint32(0)
	for _, x := range b {
		crc ^= uint32(x)
		for k := 0; k < 8; k++ {
			if crc&1 == 1 {
				crc = crc>>1 ^ 0x82F63B78
			} else {
				crc >>= 1
			}
		}
	}
	return ^crc
}

var v4mask = []byte{0x03, 0x0f, 0x3f, 0xff}
var v6mask = []byte{0x01, 0x03, 0x07, 0x0f, 0x1f, 0x3f, 0x7f, 0xff}

func isV4(ip net.IP) ([]byte, bool) {
	if len(ip) == 4 {
		return ip, true
	}
	if len(ip) == 16 {
		zero := true
		for i := 0; i < 10; i++ {
			if ip[i] != 0 {
				zero = false
			}
		}
		if zero && ip[10] == 0xff && ip[11] == 0xff {
			return ip[12:16], true
		}
	}
	return nil, false
}

// Bep42Prefix returns the expected first 21 bits (as 3 bytes with the low 3 bits of the third
// zeroed) for ip and the seed r (low three bits of the last ID byte).
func Bep42Prefix(ip net.IP, r byte) [3]byte {
	var buf []byte
	if v4, ok := isV4(ip); ok {
		buf = make([]byte, 4)
		for i := range buf {
			buf[i] = v4[i] & v4mask[i]
		}
	} else {
		buf = make([]byte, 8)
		for i := range buf {
			buf[i] = ip[i] & v6mask[i]
		}
	}
	buf[0] |= (r & 7) << 5
	crc := CRC32C(buf)
	return [3]byte{byte(crc >> 24), byte(crc >> 16), byte(crc>>8) & 0xf8}
}

// Bep42Exempt: private, loopback and link-local ranges verify with any ID.
func Bep42Exempt(ip net.IP) bool {
	if v4, ok := isV4(ip); ok {
		switch {
		case v4[0] == 10:
			return true
		case v4[0] == 172 && v4[1]&0xf0 == 16:
			return true
		case v4[0] == 192 && v4[1] == 168:
			return true
		case v4[0] == 169 && v4[1] == 254:
			return true
		case v4[0] == 127:
			return true
		}
		return false
	}
	if len(ip) != 16 {
		return false
	}
	if ip[0] == 0xfe && ip[1]&0xc0 == 0x80 {
		return true
	}
	lo := true
	for i := 0; i < 15; i++ {
		if ip[i] != 0 {
			lo = false
		}
	}
	return lo && ip[15] == 1
}

func Bep42Valid(id ID, ip net.IP) bool {
	if Bep42Exempt(ip) {
		return true
	}
	p := Bep42Prefix(ip, id[19])
	return id[0] == p[0] && id[1] == p[1] && id[2]&0xf8 == p[2]
}

func Bep42Secure(id ID, ip net.IP) ID {
	p := Bep42Prefix(ip, id[19])
	id[0], id[1] = p[0], p[1]
	id[2] = p[2] | id[2]&7
	return id
}

// ---- K closest ----

// SortByDistance sorts ids by XOR distance to t (stable).
func SortByDistance(ids []ID, t ID) {
	sort.SliceStable(ids, func(i, j int) bool { return CmpDist(ids[i], ids[j], t) < 0 })
}

func SHA1(parts ...[]byte) (out [20]byte) {
	h := sha1.New()
	for _, p := range parts {
		h.Write(p)
	}
	copy(out[:], h.Sum(nil))
	return
}

// ---- BEP 44 ----

// Bep44SignBuf is the byte string a mutable item's signature covers: optional "4:salt<len>:<salt>",
// then "3:seqi<seq>e1:v" followed by the bencoded value.
func Bep44SignBuf(salt []byte, seq int64, encodedV []byte) []byte {
	var b []byte
	if len(salt) > 0 {
		b = append(b, "4:salt"...)
		b = append(b, []byte(itoa(int64(len(salt))))...)
		b = append(b, ':')
		b = append(b, salt...)
	}
	b = append(b, "3:seqi"...)
	b = append(b, []byte(itoa(seq))...)
	b = append(b, "e1:v"...)
	b = append(b, encodedV...)
	return b
}

func itoa(n int64) string {
	if n == 0 {
		return "0"
	}
	neg := n < 0
	var u uint64
	if neg {
		u = uint64(-(n + 1)) + 1
	} else {
		u = uint64(n)
	}
	var d []byte
	for u > 0 {
		d = append([]byte{byte('0' + u%10)}, d...)
		u /= 10
	}
	if neg {
		d = append([]byte{'-'}, d...)
	}
	return string(d)
}
