// Package srv builds a real dht.Server on top of a simnet.FakeConn and defines quiescence.
package srv

import (
	"fmt"
	"net"
	"time"

	"github.com/anacrolix/dht/v2"
	"github.com/anacrolix/log"
	"golang.org/x/time/rate"

	"verifharness/benc"
	"verifharness/census"
	"verifharness/simnet"
)

func init() {
	// processPacket logs undecodable datagrams to the global logger.
	log.Default.Handlers = []log.Handler{log.DiscardHandler}
}

func QuietLogger() log.Logger {
	l := log.NewLogger("verif")
	l.Handlers = []log.Handler{log.DiscardHandler}
	return l.WithFilterLevel(log.Critical)
}

type Node struct {
	S    *dht.Server
	Conn *simnet.FakeConn
	Addr *net.UDPAddr
}

var nextLocal = 0

// New starts a server. Fields left zero in cfg get harness defaults: no starting nodes, a private
// unlimited send limiter (the package default is a process-global shared by every server), a
// silent logger, 1 ms resend delay.
func New(cfg dht.ServerConfig) (*Node, error) {
	nextLocal++
	local := &net.UDPAddr{IP: net.IP{198, 51, 100, byte(1 + nextLocal%250)}, Port: 4000 + nextLocal%20000}
	n := &Node{Conn: simnet.NewConn(local), Addr: local}
	cfg.Conn = n.Conn
	if cfg.Logger.IsZero() {
		cfg.Logger = QuietLogger()
	}
	if cfg.SendLimiter == nil {
		cfg.SendLimiter = rate.NewLimiter(rate.Inf, 0)
	}
	if cfg.StartingNodes == nil {
		cfg.StartingNodes = func() ([]dht.Addr, error) { return nil, nil }
	}
	if cfg.QueryResendDelay == nil {
		cfg.QueryResendDelay = func() time.Duration { return time.Millisecond }
	}
	if cfg.Exp == 0 {
		cfg.Exp = 2 * time.Hour // what NewDefaultServerConfig uses; zero would expire every item at once
	}
	s, err := dht.NewServer(&cfg)
	if err != nil {
		return nil, err
	}
	n.S = s
	return n, nil
}

func (n *Node) Close() {
	n.S.Close()
	n.Conn.Close()
}

// Quiesce waits until everything injected so far has been fully handled: the socket queue is
// empty, the serve loop is back in ReadFrom, no write is in progress, and no library goroutine
// exists except serve loops and those accepted by extraOK. It must see that state on two
// consecutive looks. Returns an error (with the offending goroutines) when the watchdog expires.
func (n *Node) Quiesce(extraOK func(census.G) bool) error {
	return QuiesceAll([]*Node{n}, extraOK, 30*time.Second)
}

func QuiesceAll(nodes []*Node, extraOK func(census.G) bool, limit time.Duration) error {
	ignore := func(g census.G) bool {
		if census.ServeLoop(g) {
			return true
		}
		return extraOK != nil && extraOK(g)
	}
	deadline := time.Now().Add(limit)
	sleep := 20 * time.Microsecond
	good := 0
	var last []census.G
	for {
		drained := true
		for _, n := range nodes {
			if !n.Conn.Drained() {
				drained = false
			}
		}
		if drained {
			last = census.Module(ignore)
			if len(last) == 0 {
				// Look at the sockets again: a goroutine that has just exited may have
				// injected or written as its last act.
				again := true
				for _, n := range nodes {
					if !n.Conn.Drained() {
						again = false
					}
				}
				if again {
					good++
					if good >= 2 {
						return nil
					}
					continue
				}
			}
		}
		good = 0
		if time.Now().After(deadline) {
			return fmt.Errorf("not quiescent after %v: drained=%v goroutines:\n%s", limit, drained, census.Dump(last))
		}
		time.Sleep(sleep)
		if sleep < 2*time.Millisecond {
			sleep *= 2
		}
	}
}

// ---- KRPC construction (independent of the library's structs) ----

func Query(q string, t string, args benc.Dict) []byte {
	m := benc.Dict{"y": "q", "q": q, "t": t}
	if args != nil {
		m["a"] = args
	}
	return benc.Encode(m)
}

func Response(t string, r benc.Dict) []byte {
	return benc.Encode(benc.Dict{"y": "r", "t": t, "r": r})
}

func ErrorMsg(t string, code int, msg string) []byte {
	return benc.Encode(benc.Dict{"y": "e", "t": t, "e": benc.List{int64(code), msg}})
}

// CompactNode4 builds one 26-byte entry.
func CompactNode(id [20]byte, ip net.IP, port int) string {
	b := append([]byte(nil), id[:]...)
	b = append(b, ip...)
	b = append(b, byte(port>>8), byte(port))
	return string(b)
}

func CompactAddr(ip net.IP, port int) string {
	b := append([]byte(nil), ip...)
	b = append(b, byte(port>>8), byte(port))
	return string(b)
}

// ---- asking a server things over the fake socket ----

type Reply struct {
	Raw  []byte
	To   *net.UDPAddr
	Dict benc.Dict
	Err  error
}

func (r Reply) Y() string    { s, _ := benc.Str(r.Dict, "y"); return s }
func (r Reply) T() string    { s, _ := benc.Str(r.Dict, "t"); return s }
func (r Reply) R() benc.Dict { d, _ := benc.Sub(r.Dict, "r"); return d }
func (r Reply) ErrCode() int64 {
	l, _ := benc.Lst(r.Dict, "e")
	if len(l) > 0 {
		c, _ := l[0].(int64)
		return c
	}
	return 0
}

// Exchange injects the datagrams (each from its own source) back to back, waits for quiescence and
// returns everything the server wrote meanwhile, keyed by destination "ip:port".
func (n *Node) Exchange(extraOK func(census.G) bool, msgs [][]byte, from []*net.UDPAddr) (map[string][]Reply, []Reply, error) {
	return n.ExchangePaced(extraOK, msgs, from, nil)
}

// ExchangePaced is Exchange with a pause (busy-wait, sub-scheduler-quantum) chosen by gap before
// each datagram, so that arrivals interleave with the handling of earlier ones.
func (n *Node) ExchangePaced(extraOK func(census.G) bool, msgs [][]byte, from []*net.UDPAddr, gap func() time.Duration) (map[string][]Reply, []Reply, error) {
	mark := n.Conn.NumCaptured()
	for i := range msgs {
		if gap != nil {
			if d := gap(); d > 0 {
				for t0 := time.Now(); time.Since(t0) < d; {
				}
			}
		}
		n.Conn.Inject(msgs[i], from[i])
	}
	if err := n.Quiesce(extraOK); err != nil {
		return nil, nil, err
	}
	by := map[string][]Reply{}
	var all []Reply
	for _, d := range n.Conn.Captured(mark) {
		r := Reply{Raw: d.B, To: d.To}
		r.Dict, r.Err = benc.DecodeDict(d.B)
		by[d.To.String()] = append(by[d.To.String()], r)
		all = append(all, r)
	}
	return by, all, nil
}

// Ask is Exchange for one datagram.
func (n *Node) Ask(msg []byte, from *net.UDPAddr) ([]Reply, error) {
	by, _, err := n.Exchange(nil, [][]byte{msg}, []*net.UDPAddr{from})
	return by[from.String()], err
}

// Token obtains a write token for from's IP with a get query (works with or without a peer store).
func (n *Node) Token(from *net.UDPAddr, sender [20]byte) (string, error) {
	rs, err := n.Ask(Query("get", "tk", benc.Dict{"id": sender, "target": [20]byte{1}}), from)
	if err != nil {
		return "", err
	}
	if len(rs) != 1 {
		return "", fmt.Errorf("get from %v: %d replies", from, len(rs))
	}
	tok, ok := benc.Str(rs[0].R(), "token")
	if !ok {
		return "", fmt.Errorf("get from %v: reply without token: %q", from, rs[0].Raw)
	}
	return tok, nil
}

// PendingQueryOK accepts the goroutines of an outbound query that is parked waiting for its reply
// (the caller in Server.Query's select and the sender in its resend wait). Used when a scenario
// deliberately keeps queries open across a quiescent point.
func PendingQueryOK(g census.G) bool {
	if g.State != "select" {
		return false
	}
	return g.Has("(*Server).Query") || g.Has("transactionSender") || g.Has("transactionQuerySender")
}
