// Package tbl drives a live dht.Server through histories of table-relevant events over the fake
// socket and holds the oracles for C05 (well-formedness after every event), C06 (transition rules
// between consecutive snapshots) and the table-building part of C09.
package tbl

import (
	"context"
	"fmt"
	"net"
	"sort"
	"strings"
	"sync"
	"sync/atomic"
	"time"

	"github.com/anacrolix/dht/v2"
	"github.com/anacrolix/dht/v2/krpc"
	"github.com/anacrolix/torrent/iplist"

	"verifharness/benc"
	"verifharness/gen"
	"verifharness/ref"
	"verifharness/simnet"
	"verifharness/srv"
)

// Blocklist is the harness's own iplist.Ranger: a set of exact addresses plus one IPv4 /16 range.
type Blocklist struct {
	mu    sync.Mutex
	exact map[string]bool // 16-byte form
	net16 [2]byte
	has16 bool
}

func NewBlocklist() *Blocklist { return &Blocklist{exact: map[string]bool{}} }

func (b *Blocklist) Add(ip net.IP) {
	b.mu.Lock()
	b.exact[string(ip.To16())] = true
	b.mu.Unlock()
}

func (b *Blocklist) AddNet16(a, c byte) {
	b.mu.Lock()
	b.net16, b.has16 = [2]byte{a, c}, true
	b.mu.Unlock()
}

func (b *Blocklist) Covers(ip net.IP) bool {
	if b == nil {
		return false
	}
	b.mu.Lock()
	defer b.mu.Unlock()
	if b.exact[string(ip.To16())] {
		return true
	}
	if v4 := ip.To4(); v4 != nil && b.has16 && v4[0] == b.net16[0] && v4[1] == b.net16[1] {
		return true
	}
	return false
}

func (b *Blocklist) Lookup(ip net.IP) (iplist.Range, bool) {
	if b.Covers(ip) {
		return iplist.Range{First: ip, Last: ip, Description: "verif"}, true
	}
	return iplist.Range{}, false
}

func (b *Blocklist) NumRanges() int { return 1 }

type Pair struct {
	Addr string // ip:port as the server prints it
	ID   [20]byte
}

type Contact struct {
	UDP *net.UDPAddr
	ID  [20]byte
}

func (c Contact) Pair() Pair { return Pair{c.UDP.String(), c.ID} }

type Event struct {
	Kind   string
	Desc   string
	J      []Pair // who may be admitted by this event
	Sender *Pair  // whose timestamps may legitimately change
	Age    time.Duration
	// Eligible: the sender must be present afterwards if its bucket had room.
	Eligible bool
	// MatchedResponse: the sender has just answered one of our queries.
	MatchedResponse bool
}

type Driver struct {
	N        *srv.Node
	R        *gen.Rand
	Root     [20]byte
	Enforce  bool
	Block    *Blocklist
	Contacts []Contact
	Trace    []string
	hot      []int
	Err      error
	// LateBlock: the server starts without a blocklist; d.Block is installed through
	// SetIPBlockList at the first "block" event. Until then nothing is blocked.
	LateBlock      bool
	blockInstalled bool
	// Answered records, from the driver's side only, who has answered one of the server's own
	// queries with a matched reply (and under which ID).
	Answered map[Pair]bool
	delay    atomic.Int64 // what QueryResendDelay returns, ns
	// forceBucket >= 0: the next "other-id" answer uses an ID of that bucket.
	forceBucket int
}

const longDelay = int64(time.Hour)

func NewDriver(r *gen.Rand, enforce bool, block *Blocklist, passive bool, opts ...func(*dht.ServerConfig)) (*Driver, error) {
	cfg := dht.ServerConfig{NoSecurity: !enforce, Passive: passive}
	late := block != nil && r.Intn(3) == 0
	if block != nil && !late {
		cfg.IPBlocklist = block
	}
	if enforce {
		cfg.PublicIP = r.PublicIPv4()
	}
	for _, o := range opts {
		o(&cfg)
	}
	d := &Driver{forceBucket: -1, R: r, Enforce: enforce, Block: block, Answered: map[Pair]bool{}, LateBlock: late, blockInstalled: block != nil && !late}
	// Outbound queries never time out by themselves (the driver cancels them when a scenario wants
	// a failure), so that no verdict depends on answering within a wall-clock window.
	d.delay.Store(longDelay)
	cfg.QueryResendDelay = func() time.Duration { return time.Duration(d.delay.Load()) }
	n, err := srv.New(cfg)
	if err != nil {
		return nil, err
	}
	d.N, d.Root = n, n.S.ID()
	// Hot buckets: the shallow ones fill by chance, a few deep ones are targeted.
	d.hot = []int{0, 1, 2, r.Intn(160), r.Intn(160), 159}
	return d, nil
}

func (d *Driver) Close() { d.N.Close() }

func (d *Driver) newAddr() *net.UDPAddr {
	if d.Block != nil && d.R.Intn(6) == 0 {
		// an address the blocklist covers
		d.Block.mu.Lock()
		a, b, has := d.Block.net16[0], d.Block.net16[1], d.Block.has16
		d.Block.mu.Unlock()
		if has {
			return &net.UDPAddr{IP: net.IP{a, b, byte(d.R.Intn(256)), byte(1 + d.R.Intn(254))}, Port: d.R.Port()}
		}
	}
	if d.Enforce && d.R.Intn(8) == 0 {
		// private / loopback / link-local sources: BEP 42 exempts them, so any ID is acceptable there
		u := d.R.Bytes(4)
		switch d.R.Intn(4) {
		case 0:
			return &net.UDPAddr{IP: net.IP{10, u[1], u[2], u[3]}, Port: d.R.Port()}
		case 1:
			return &net.UDPAddr{IP: net.IP{192, 168, u[2], u[3]}, Port: d.R.Port()}
		case 2:
			return &net.UDPAddr{IP: net.IP{127, u[1], u[2], 1 + u[3]%250}, Port: d.R.Port()}
		default:
			ip := net.IP(d.R.Bytes(16))
			ip[0], ip[1] = 0xfe, 0x80
			return &net.UDPAddr{IP: ip, Port: d.R.Port()}
		}
	}
	switch d.R.Intn(5) {
	case 0:
		return &net.UDPAddr{IP: d.R.PublicIPv6(), Port: d.R.Port()}
	case 1:
		return &net.UDPAddr{IP: gen.V4Mapped(d.R.PublicIPv4()), Port: d.R.Port()}
	}
	return &net.UDPAddr{IP: d.R.PublicIPv4(), Port: d.R.Port()}
}

func (d *Driver) newID(addr *net.UDPAddr) [20]byte {
	r := d.R
	var id [20]byte
	switch k := r.Intn(20); {
	case k == 0:
		return d.Root
	case k == 1:
		return [20]byte{}
	case k < 12:
		id = r.IDWithPrefix(d.Root, gen.Pick(r, d.hot))
	default:
		id = r.IDWithPrefix(d.Root, r.Intn(160))
	}
	if d.Enforce && r.Intn(4) != 0 {
		// Valid for the source address; the prefix (and so the bucket) is then whatever BEP 42 says.
		id = ref.Bep42Secure(id, addr.IP)
	}
	return id
}

// contact picks an existing contact or makes a new one (new address, or a known address under a
// new ID, or a known ID at a new address).
func (d *Driver) contact() Contact {
	r := d.R
	if len(d.Contacts) > 0 {
		switch r.Intn(10) {
		case 0, 1, 2, 3, 4:
			return gen.Pick(r, d.Contacts)
		case 5:
			o := gen.Pick(r, d.Contacts)
			c := Contact{o.UDP, d.newID(o.UDP)}
			d.Contacts = append(d.Contacts, c)
			return c
		case 7:
			// the same host and ID, with the IPv4 address in its other byte form (4 vs 16 bytes)
			o := gen.Pick(r, d.Contacts)
			if v4 := o.UDP.IP.To4(); v4 != nil {
				ip := net.IP(v4)
				if len(o.UDP.IP) == 4 {
					ip = gen.V4Mapped(v4)
				}
				return Contact{&net.UDPAddr{IP: ip, Port: o.UDP.Port}, o.ID}
			}
			return o
		case 8:
			// a known contact's ID from another port of the same IP (a second process behind the
			// same host or NAT, or an impostor): another contact, the first one's standing is untouched
			o := gen.Pick(r, d.Contacts)
			p := o.UDP.Port ^ (1 + r.Intn(1023))
			if p == 0 || p > 65535 {
				p = 1 + r.Intn(65535)
			}
			c := Contact{&net.UDPAddr{IP: append(net.IP(nil), o.UDP.IP...), Port: p}, o.ID}
			d.Contacts = append(d.Contacts, c)
			return c
		case 6:
			o := gen.Pick(r, d.Contacts)
			c := Contact{d.newAddr(), o.ID}
			if d.Enforce {
				c.ID = d.newID(c.UDP)
			}
			d.Contacts = append(d.Contacts, c)
			return c
		}
	}
	a := d.newAddr()
	c := Contact{a, d.newID(a)}
	d.Contacts = append(d.Contacts, c)
	return c
}

func (d *Driver) blocked(ip net.IP) bool {
	return d.Block != nil && d.blockInstalled && d.Block.Covers(ip)
}

func (d *Driver) eligible(c Contact, ro bool) bool {
	if ro || d.blocked(c.UDP.IP) || c.ID == d.Root || c.ID == ([20]byte{}) {
		return false
	}
	if d.Enforce && !ref.Bep42Valid(c.ID, c.UDP.IP) {
		return false
	}
	return true
}

func (d *Driver) log(ev *Event) {
	d.Trace = append(d.Trace, ev.Desc)
}

// hearsay builds a nodes list naming third parties (which must never enter the table that way).
func (d *Driver) hearsay() (string, []Pair) {
	var b []byte
	var ps []Pair
	for i := 0; i < d.R.Intn(5); i++ {
		id := d.R.IDWithPrefix(d.Root, gen.Pick(d.R, d.hot))
		ip := d.R.PublicIPv4()
		port := d.R.Port()
		b = append(b, srv.CompactNode(id, ip, port)...)
		ps = append(ps, Pair{(&net.UDPAddr{IP: ip, Port: port}).String(), id})
	}
	return string(b), ps
}

func (d *Driver) quiescePending() bool {
	if err := d.N.Quiesce(srv.PendingQueryOK); err != nil {
		d.Err = err
		return false
	}
	return true
}

func (d *Driver) quiesce() bool {
	if err := d.N.Quiesce(nil); err != nil {
		d.Err = err
		return false
	}
	return true
}

// InboundQuery delivers a query from c.
func (d *Driver) InboundQuery(c Contact, ro bool) Event {
	q := gen.Pick(d.R, []string{"ping", "find_node", "get_peers"})
	a := benc.Dict{"id": c.ID, "target": d.R.ID(), "info_hash": d.R.ID()}
	m := benc.Dict{"y": "q", "q": q, "t": "iq", "a": a}
	if ro {
		m["ro"] = int64(1)
	}
	ev := Event{Kind: "query", Desc: fmt.Sprintf("query(%s from %v id=%x ro=%v)", q, c.UDP, c.ID[:3], ro)}
	p := c.Pair()
	ev.Sender = &p
	if !ro && !d.blocked(c.UDP.IP) {
		ev.J = []Pair{p}
	}
	if d.blocked(c.UDP.IP) {
		ev.Sender = nil
	}
	ev.Eligible = d.eligible(c, ro)
	d.log(&ev)
	d.N.Conn.Inject(benc.Encode(m), c.UDP)
	d.quiesce()
	return ev
}

// outbound starts a query to addr and returns its transaction ID once it is on the wire, plus a
// function that waits for the query to return.
func (d *Driver) outbound(to *net.UDPAddr, start func(ctx context.Context) dht.QueryResult) (t string, wait func() dht.QueryResult, cancel func(), ok bool) {
	mark := d.N.Conn.NumCaptured()
	ctx, cancelCtx := context.WithCancel(context.Background())
	done := make(chan dht.QueryResult, 1)
	go func() { done <- start(ctx) }()
	deadline := time.Now().Add(20 * time.Second)
	for {
		for _, dg := range d.N.Conn.Captured(mark) {
			if dg.To.String() == to.String() {
				if m, err := benc.DecodeDict(dg.B); err == nil && m["y"] == "q" {
					t, _ = benc.Str(m, "t")
					return t, func() dht.QueryResult { return <-done }, cancelCtx, true
				}
			}
		}
		select {
		case res := <-done:
			// returned without sending (blocked address, closed)
			done <- res
			return "", func() dht.QueryResult { return <-done }, cancelCtx, false
		default:
		}
		if time.Now().After(deadline) {
			d.Err = fmt.Errorf("query to %v never reached the socket", to)
			return "", func() dht.QueryResult { return <-done }, cancelCtx, false
		}
		time.Sleep(20 * time.Microsecond)
	}
}

// OutboundAnswered sends a ping to c and answers it as c (matched), optionally read-only and with
// hearsay.
func (d *Driver) OutboundAnswered(c Contact, ro bool) Event {
	ev := Event{Kind: "response", Desc: fmt.Sprintf("our query to %v answered by id=%x ro=%v", c.UDP, c.ID[:3], ro)}
	if d.blocked(c.UDP.IP) {
		ev.Kind = "noop"
		ev.Desc += " [blocked: not sent]"
		d.log(&ev)
		return ev
	}
	t, wait, cancel, ok := d.outbound(c.UDP, func(ctx context.Context) dht.QueryResult {
		return d.N.S.Query(ctx, dht.NewAddr(c.UDP), "find_node", dht.QueryInput{MsgArgs: krpc.MsgArgs{Target: d.Root}})
	})
	defer cancel()
	if !ok {
		wait()
		d.log(&ev)
		return ev
	}
	nodes, _ := d.hearsay()
	m := benc.Dict{"y": "r", "t": t, "r": benc.Dict{"id": c.ID, "nodes": nodes}}
	if ro {
		m["ro"] = int64(1)
	}
	p := c.Pair()
	ev.Sender = &p
	if !ro {
		ev.J = []Pair{p}
	}
	ev.Eligible = d.eligible(c, ro)
	ev.MatchedResponse = !ro
	d.log(&ev)
	d.N.Conn.Inject(benc.Encode(m), c.UDP)
	res := wait()
	if res.Err != nil {
		d.Err = fmt.Errorf("matched reply did not complete the query: %v", res.Err)
	} else {
		d.Answered[p] = true
	}
	d.quiesce()
	return ev
}

// OutboundMismatched sends a ping to c; what comes back does not match (other port, other IP, wrong
// t, error-typed); the query then times out.
func (d *Driver) OutboundMismatched(c Contact) Event {
	ev := Event{Kind: "mismatch"}
	if d.blocked(c.UDP.IP) {
		ev.Kind, ev.Desc = "noop", "mismatch skipped (blocked)"
		d.log(&ev)
		return ev
	}
	t, wait, cancel, ok := d.outbound(c.UDP, func(ctx context.Context) dht.QueryResult {
		return d.N.S.Query(ctx, dht.NewAddr(c.UDP), "ping", dht.QueryInput{})
	})
	defer cancel()
	if !ok {
		wait()
		ev.Desc = "mismatch: query not sent"
		d.log(&ev)
		return ev
	}
	from := c.UDP
	tt := t
	body := benc.Dict{"y": "r", "t": t, "r": benc.Dict{"id": c.ID}}
	k := d.R.Intn(5)
	switch k {
	case 0:
		from = &net.UDPAddr{IP: c.UDP.IP, Port: c.UDP.Port%65535 + 1}
	case 1:
		from = d.newAddr()
	case 2:
		tt = t + "x"
		body["t"] = tt
	case 3:
		tt = ""
		body["t"] = tt
	case 4:
		// error-typed reply, matched: completes the query but carries no sender ID
		body = benc.Dict{"y": "e", "t": t, "e": benc.List{int64(201), "no"}}
	}
	ev.Desc = fmt.Sprintf("our query to %v (t=%q) gets variant %d from %v t=%q claiming id=%x", c.UDP, t, k, from, tt, c.ID[:3])
	d.log(&ev)
	d.N.Conn.Inject(benc.Encode(body), from)
	if k != 4 {
		// The datagram must be handled while the query is still open; then the query is given up.
		d.quiescePending()
		cancel()
	}
	wait()
	d.quiesce()
	return ev
}

func (d *Driver) Unsolicited(c Contact) Event {
	ev := Event{Kind: "unsolicited", Desc: fmt.Sprintf("unsolicited response from %v id=%x", c.UDP, c.ID[:3])}
	d.log(&ev)
	nodes, _ := d.hearsay()
	d.N.Conn.Inject(benc.Encode(benc.Dict{"y": "r", "t": string(d.R.Bytes(2)), "r": benc.Dict{"id": c.ID, "nodes": nodes}}), c.UDP)
	d.quiesce()
	return ev
}

func (d *Driver) AddNode(c Contact) Event {
	ev := Event{Kind: "addnode", Desc: fmt.Sprintf("AddNode(%v id=%x)", c.UDP, c.ID[:3])}
	p := c.Pair()
	ev.J = []Pair{p}
	ev.Sender = &p
	ev.Eligible = c.ID != d.Root && c.ID != [20]byte{} && (!d.Enforce || ref.Bep42Valid(c.ID, c.UDP.IP))
	d.log(&ev)
	// A zero ID makes the server ping the address with a context nobody can cancel; let that ping
	// time out quickly.
	d.delay.Store(int64(time.Millisecond))
	d.N.S.AddNode(krpc.NodeInfo{ID: c.ID, Addr: krpc.NodeAddr{IP: c.UDP.IP, Port: c.UDP.Port}})
	d.quiesce()
	d.delay.Store(longDelay)
	return ev
}

// QuestionablePing runs the maintenance ping against a table entry. answer: "ok", "timeout" or
// "other-id" (answers under a different ID).
func (d *Driver) QuestionablePing(n dht.VerifNode, answer string) Event {
	ua := &net.UDPAddr{IP: n.IP, Port: n.Port}
	ev := Event{Kind: "qping-" + answer, Desc: fmt.Sprintf("questionable ping of %v id=%x: %s", ua, n.Id[:3], answer)}
	if d.blocked(ua.IP) {
		ev.Kind = "qping-blocked"
	}
	t, wait, cancel, ok := d.outbound(ua, func(ctx context.Context) dht.QueryResult {
		return d.N.S.VerifQuestionablePing(ctx, dht.NewAddr(ua), n.Id)
	})
	defer cancel()
	p := Pair{n.Addr, n.Id}
	ev.Sender = &p
	if ok && answer != "timeout" {
		id := n.Id
		if answer == "other-id" {
			id = d.newID(ua)
			if d.forceBucket >= 0 && !d.Enforce {
				id = d.R.IDWithPrefix(d.Root, d.forceBucket)
				ev.Desc += fmt.Sprintf(" (new ID belongs in full bucket %d)", d.forceBucket)
			}
			np := Pair{n.Addr, id}
			ev.Sender = &np
			ev.Eligible = d.eligible(Contact{ua, id}, false)
		}
		ev.J = []Pair{{n.Addr, id}}
		ev.MatchedResponse = true
		d.Answered[Pair{n.Addr, id}] = true
		d.log(&ev)
		d.N.Conn.Inject(benc.Encode(benc.Dict{"y": "r", "t": t, "r": benc.Dict{"id": id}}), ua)
	} else {
		d.log(&ev)
		if ok {
			cancel() // no answer: the ping fails
		}
	}
	wait()
	d.quiesce()
	return ev
}

func (d *Driver) Age(dur time.Duration) Event {
	ev := Event{Kind: "age", Age: dur, Desc: fmt.Sprintf("age(%v)", dur)}
	d.log(&ev)
	d.N.S.VerifAge(dur)
	return ev
}

// Step performs one PRNG-chosen event.
func (d *Driver) Step(snap dht.VerifTableSnapshot) Event {
	r := d.R
	switch k := r.Intn(100); {
	case k < 30:
		return d.InboundQuery(d.contact(), r.Intn(8) == 0)
	case k < 52:
		return d.OutboundAnswered(d.contact(), r.Intn(8) == 0)
	case k < 55:
		return d.OutboundAnsweredAfterCancel(d.contact())
	case k < 62:
		return d.OutboundMismatched(d.contact())
	case k < 68:
		return d.Unsolicited(d.contact())
	case k < 74:
		return d.AddNode(d.contact())
	case k < 86:
		if len(snap.Nodes) == 0 {
			return d.InboundQuery(d.contact(), false)
		}
		n := gen.Pick(r, snap.Nodes)
		answer := gen.Pick(r, []string{"ok", "timeout", "timeout", "other-id", "other-id"})
		if answer == "other-id" && r.Bool() {
			// The node at that address answers under an ID that belongs in a bucket which is full at
			// the moment (where the reply itself cannot be admitted), other than the entry's own.
			per := map[int]int{}
			for _, e := range snap.Nodes {
				per[e.Bucket]++
			}
			var full []int
			for b := 0; b < 160; b++ {
				if per[b] >= snap.K && b != n.Bucket {
					full = append(full, b)
				}
			}
			if len(full) > 0 {
				d.forceBucket = gen.Pick(r, full)
				defer func() { d.forceBucket = -1 }()
			}
		}
		return d.QuestionablePing(n, answer)
	case k < 89 && d.Block != nil && len(d.Contacts) > 0:
		// Block a known contact's address from now on (entries already admitted stay).
		c := gen.Pick(r, d.Contacts)
		ev := Event{Kind: "block", Desc: fmt.Sprintf("blocklist += %v", c.UDP.IP)}
		d.log(&ev)
		d.Block.Add(c.UDP.IP)
		if r.Bool() || !d.blockInstalled {
			d.N.S.SetIPBlockList(d.Block)
			d.blockInstalled = true
		}
		return ev
	default:
		return d.Age(gen.Pick(r, []time.Duration{time.Minute, 13 * time.Minute, 17 * time.Minute, time.Hour}))
	}
}

// QuestionablePingOtherID: the maintenance ping of entry n is answered, from n's address, under a
// fresh ID that belongs in the given bucket.
func (d *Driver) QuestionablePingOtherID(n dht.VerifNode, bucket int) Event {
	d.forceBucket = bucket
	defer func() { d.forceBucket = -1 }()
	return d.QuestionablePing(n, "other-id")
}

// Flood aims n fresh contacts at one bucket.
func (d *Driver) FloodContacts(bucket, n int) []Contact {
	var out []Contact
	for i := 0; i < n; i++ {
		a := d.newAddr()
		id := d.R.IDWithPrefix(d.Root, bucket)
		out = append(out, Contact{a, id})
	}
	return out
}

// ---- oracles ----

type Finding struct {
	Prop, Signature, Detail string
}

func key(n dht.VerifNode) Pair { return Pair{n.Addr, n.Id} }

// RefBad / RefGood recompute the node classification from snapshot data only.
func (d *Driver) RefBad(n dht.VerifNode) bool {
	if n.Id == d.Root || n.Id == [20]byte{} {
		return true
	}
	if d.Enforce && !ref.Bep42Valid(n.Id, n.IP) {
		return true
	}
	return n.FailedLastQuestionablePing
}

const goodWindow = 15 * time.Minute
const margin = time.Minute

// RefGood returns (good, certain). certain=false within a minute of the 15-minute boundary.
func (d *Driver) RefGood(n dht.VerifNode, now time.Time) (bool, bool) {
	if d.RefBad(n) {
		return false, true
	}
	near := func(t time.Time) bool {
		if t.IsZero() {
			return false
		}
		a := now.Sub(t)
		return a > goodWindow-margin && a < goodWindow+margin
	}
	fresh := func(t time.Time) bool { return !t.IsZero() && now.Sub(t) < goodWindow }
	good := fresh(n.LastGotResponse) || !n.LastGotResponse.IsZero() && fresh(n.LastGotQuery)
	certain := !near(n.LastGotResponse) && !(near(n.LastGotQuery) && !n.LastGotResponse.IsZero() && !fresh(n.LastGotResponse))
	return good, certain
}

// CheckWellFormed is the C05 oracle on one snapshot plus what the public API reports at the same
// quiescent point.
func (d *Driver) CheckWellFormed(s dht.VerifTableSnapshot) (fs []Finding) {
	add := func(sig, det string) {
		fs = append(fs, Finding{"C05", sig, det + "\nhistory: " + strings.Join(d.Trace, "; ")})
	}
	if s.RootId != d.Root {
		add("root-id-changed", fmt.Sprintf("%x vs %x", s.RootId, d.Root))
	}
	perBucket := map[int]int{}
	seen := map[Pair]bool{}
	idx := map[string]map[[20]byte]bool{}
	goodCertain, goodMaybe := 0, 0
	notBad := map[Pair]bool{}
	for _, n := range s.Nodes {
		perBucket[n.Bucket]++
		if n.Id == d.Root {
			add("own-id-in-table", n.Addr)
			continue
		}
		if n.Id == [20]byte{} {
			add("zero-id-in-table", n.Addr)
		}
		if want := ref.BucketIndex(d.Root, n.Id); want != n.Bucket {
			add("entry-in-wrong-bucket", fmt.Sprintf("%x@%s sits in bucket %d, shares %d leading bits with the root %x", n.Id, n.Addr, n.Bucket, want, d.Root))
		}
		if seen[key(n)] {
			add("duplicate-id-and-address", fmt.Sprintf("%x@%s twice", n.Id, n.Addr))
		}
		seen[key(n)] = true
		if idx[n.Addr] == nil {
			idx[n.Addr] = map[[20]byte]bool{}
		}
		idx[n.Addr][n.Id] = true
		bad := d.RefBad(n)
		if bad != n.IsBad {
			add("bad-classification-differs", fmt.Sprintf("%x@%s: library says bad=%v, recomputed %v", n.Id, n.Addr, n.IsBad, bad))
		}
		g, certain := d.RefGood(n, s.Now)
		if certain && g != n.IsGood {
			add("good-classification-differs", fmt.Sprintf("%x@%s: library says good=%v, recomputed %v (lastQuery %v ago, lastResponse %v ago, zeroResp=%v, failed=%v)",
				n.Id, n.Addr, n.IsGood, g, s.Now.Sub(n.LastGotQuery), s.Now.Sub(n.LastGotResponse), n.LastGotResponse.IsZero(), n.FailedLastQuestionablePing))
		}
		if certain && g {
			goodCertain++
		}
		if !certain {
			goodMaybe++
		}
		if !bad {
			notBad[key(n)] = true
		}
	}
	for b, cnt := range perBucket {
		if cnt > 8 {
			add("bucket-over-k", fmt.Sprintf("bucket %d holds %d entries", b, cnt))
		}
	}
	// address index mirrors the buckets
	if len(idx) != len(s.Addrs) {
		add("address-index-diverged", fmt.Sprintf("index has %d addresses, buckets have %d", len(s.Addrs), len(idx)))
	}
	for a, ids := range s.Addrs {
		if len(ids) != len(idx[a]) {
			add("address-index-diverged", fmt.Sprintf("address %s: index has %d ids, buckets have %d", a, len(ids), len(idx[a])))
			continue
		}
		for _, id := range ids {
			if !idx[a][id] {
				add("address-index-diverged", fmt.Sprintf("index lists %x@%s, no such entry in the buckets", id, a))
			}
		}
	}
	// public API
	st := d.N.S.Stats()
	nn := d.N.S.NumNodes()
	if nn != len(s.Nodes) || st.Nodes != len(s.Nodes) {
		add("node-count-disagrees", fmt.Sprintf("entries=%d NumNodes()=%d Stats().Nodes=%d", len(s.Nodes), nn, st.Nodes))
	}
	if st.GoodNodes < goodCertain || st.GoodNodes > goodCertain+goodMaybe {
		add("good-count-disagrees", fmt.Sprintf("Stats().GoodNodes=%d, recomputed %d (+%d near the 15-minute boundary)", st.GoodNodes, goodCertain, goodMaybe))
	}
	var sb strings.Builder
	d.N.S.WriteStatus(&sb)
	var wg, wt int
	for _, line := range strings.Split(sb.String(), "\n") {
		if _, err := fmt.Sscanf(line, "Nodes in table: %d good, %d total", &wg, &wt); err == nil {
			if wt != len(s.Nodes) {
				add("node-count-disagrees", fmt.Sprintf("WriteStatus total=%d, entries=%d", wt, len(s.Nodes)))
			}
			if wg < goodCertain || wg > goodCertain+goodMaybe {
				add("good-count-disagrees", fmt.Sprintf("WriteStatus good=%d, recomputed %d (+%d)", wg, goodCertain, goodMaybe))
			}
		}
	}
	exported := map[Pair]int{}
	for _, ni := range d.N.S.Nodes() {
		exported[Pair{(&net.UDPAddr{IP: ni.Addr.IP, Port: ni.Addr.Port}).String(), ni.ID}]++
	}
	for p := range notBad {
		if exported[p] != 1 {
			add("exported-node-list-disagrees", fmt.Sprintf("%x@%s is in the table and not bad, Nodes() lists it %d times", p.ID, p.Addr, exported[p]))
		}
	}
	for p := range exported {
		if !notBad[p] {
			add("exported-node-list-disagrees", fmt.Sprintf("Nodes() lists %x@%s which is not a non-bad table entry", p.ID, p.Addr))
		}
	}
	return
}

// CheckTransition is the C06 oracle between the snapshots before and after one event.
func (d *Driver) CheckTransition(before, after dht.VerifTableSnapshot, ev Event) (fs []Finding) {
	add := func(sig, det string) {
		fs = append(fs, Finding{"C06", sig, fmt.Sprintf("event: %s\n%s\nhistory: %s", ev.Desc, det, strings.Join(d.Trace, "; "))})
	}
	bm, am := map[Pair]dht.VerifNode{}, map[Pair]dht.VerifNode{}
	bucketCount := map[int]int{}
	for _, n := range before.Nodes {
		bm[key(n)] = n
		bucketCount[n.Bucket]++
	}
	for _, n := range after.Nodes {
		am[key(n)] = n
	}
	inJ := func(p Pair) bool {
		for _, j := range ev.J {
			if j == p {
				return true
			}
		}
		return false
	}
	var added, removed []dht.VerifNode
	for p, n := range am {
		if _, ok := bm[p]; !ok {
			added = append(added, n)
		}
	}
	for p, n := range bm {
		if _, ok := am[p]; !ok {
			removed = append(removed, n)
		}
	}
	sort.Slice(added, func(i, j int) bool { return added[i].Addr < added[j].Addr })
	if ev.Kind == "age" {
		if len(added)+len(removed) != 0 {
			add("membership-changed-by-time-alone", fmt.Sprintf("added %d removed %d", len(added), len(removed)))
		}
		return
	}
	for _, n := range added {
		if !inJ(key(n)) {
			add("entry-admitted-without-direct-contact:"+ev.Kind, fmt.Sprintf("%x@%s entered the table; this event justifies only %v", n.Id, n.Addr, ev.J))
			continue
		}
		if d.Enforce && !ref.Bep42Valid(n.Id, n.IP) {
			add("insecure-id-admitted-under-enforcement:"+ev.Kind, fmt.Sprintf("%x@%s is not valid for its IP", n.Id, n.Addr))
		}
		if d.blocked(n.IP) && ev.Kind != "addnode" {
			add("blocked-address-admitted:"+ev.Kind, fmt.Sprintf("%x@%s", n.Id, n.Addr))
		}
	}
	if len(added) > 1 {
		add("more-than-one-entry-admitted-by-one-event:"+ev.Kind, fmt.Sprintf("%d entries", len(added)))
	}
	for _, n := range removed {
		wasBad := d.RefBad(n)
		g, certain := d.RefGood(n, before.Now)
		displacedByAnswerer := n.LastGotResponse.IsZero() && ev.MatchedResponse && len(added) == 1 && ev.Sender != nil && key(added[0]) == *ev.Sender
		if certain && g {
			add("good-entry-removed:"+ev.Kind, fmt.Sprintf("%x@%s was good before the event and is gone after it", n.Id, n.Addr))
			continue
		}
		if !wasBad && !displacedByAnswerer {
			add("entry-removed-without-cause:"+ev.Kind, fmt.Sprintf("%x@%s was not bad (failed=%v), had answered=%v; removal allowed only for bad entries or never-answered ones displaced by a newcomer that just answered (matched=%v added=%d)",
				n.Id, n.Addr, n.FailedLastQuestionablePing, !n.LastGotResponse.IsZero(), ev.MatchedResponse, len(added)))
		}
	}
	if len(removed) > 0 && len(added) == 0 {
		add("entry-removed-with-nothing-admitted:"+ev.Kind, fmt.Sprintf("%d removed", len(removed)))
	}
	// Nobody but the event's legitimate sender may have been refreshed.
	for p, b := range bm {
		a, ok := am[p]
		if !ok || ev.Sender != nil && p == *ev.Sender {
			continue
		}
		if !a.LastGotQuery.Equal(b.LastGotQuery) || !a.LastGotResponse.Equal(b.LastGotResponse) || a.FailedLastQuestionablePing != b.FailedLastQuestionablePing {
			add("entry-refreshed-by-someone-elses-message:"+ev.Kind, fmt.Sprintf("%x@%s changed (query %v->%v, response %v->%v, failed %v->%v) although the event concerns %v",
				b.Id, b.Addr, b.LastGotQuery, a.LastGotQuery, b.LastGotResponse, a.LastGotResponse, b.FailedLastQuestionablePing, a.FailedLastQuestionablePing, ev.Sender))
		}
	}
	// Events that justify nothing must change nothing at all (the sender included).
	if len(ev.J) == 0 && ev.Sender != nil && (ev.Kind == "unsolicited" || ev.Kind == "mismatch") {
		if b, ok := bm[*ev.Sender]; ok {
			if a, ok := am[*ev.Sender]; ok && (!a.LastGotResponse.Equal(b.LastGotResponse) || !a.LastGotQuery.Equal(b.LastGotQuery)) {
				add("entry-refreshed-by-unmatched-response:"+ev.Kind, fmt.Sprintf("%x@%s", b.Id, b.Addr))
			}
		}
	}
	// An eligible sender is admitted whenever its bucket has room.
	if ev.Eligible && ev.Sender != nil {
		if _, was := bm[*ev.Sender]; !was {
			b := ref.BucketIndex(d.Root, ev.Sender.ID)
			if _, is := am[*ev.Sender]; !is && bucketCount[b] < 8 {
				add("eligible-sender-not-admitted:"+ev.Kind, fmt.Sprintf("%x@%s is eligible and bucket %d had %d entries", ev.Sender.ID, ev.Sender.Addr, b, bucketCount[b]))
			}
		}
	}
	return
}

var _ = simnet.Now

// SetQueryDelay changes what the server's QueryResendDelay returns from now on.
func (d *Driver) SetQueryDelay(x time.Duration) { d.delay.Store(int64(x)) }


// OutboundAnsweredAfterCancel: our query to c is cancelled while its datagram is still inside the
// socket write; c's matching reply arrives before the query has deregistered. The reply matches a
// pending transaction, so c did answer one of our queries.
func (d *Driver) OutboundAnsweredAfterCancel(c Contact) Event {
	ev := Event{Kind: "response-after-cancel", Desc: fmt.Sprintf("our query to %v cancelled mid-write, then answered by id=%x while still registered", c.UDP, c.ID[:3])}
	if d.blocked(c.UDP.IP) {
		ev.Kind = "noop"
		d.log(&ev)
		return ev
	}
	reached := make(chan string, 1)
	release := make(chan struct{})
	d.N.Conn.SetHook(func(dg simnet.Datagram) error {
		if dg.To.String() == c.UDP.String() {
			t := ""
			if m, err := benc.DecodeDict(dg.B); err == nil {
				t, _ = benc.Str(m, "t")
			}
			select {
			case reached <- t:
				<-release
			default:
			}
		}
		return nil
	})
	defer d.N.Conn.SetHook(nil)
	ctx, cancel := context.WithCancel(context.Background())
	done := make(chan dht.QueryResult, 1)
	go func() {
		done <- d.N.S.Query(ctx, dht.NewAddr(c.UDP), "ping", dht.QueryInput{})
	}()
	var t string
	select {
	case t = <-reached:
	case <-time.After(20 * time.Second):
		cancel()
		close(release)
		<-done
		d.Err = fmt.Errorf("query to %v never reached the socket", c.UDP)
		return ev
	}
	cancel()
	// Give Query the chance to leave its select on the cancelled context; it then waits for the
	// sender, which sits in the write. Whether it has or has not is immaterial to what must follow.
	time.Sleep(200 * time.Microsecond)
	p := c.Pair()
	ev.Sender, ev.J, ev.Eligible, ev.MatchedResponse = &p, []Pair{p}, d.eligible(c, false), true
	d.log(&ev)
	d.N.Conn.Inject(benc.Encode(benc.Dict{"y": "r", "t": t, "r": benc.Dict{"id": c.ID}}), c.UDP)
	deadline := time.Now().Add(20 * time.Second)
	for !d.N.Conn.Drained0() && time.Now().Before(deadline) {
		time.Sleep(20 * time.Microsecond)
	}
	close(release)
	<-done
	d.Answered[p] = true
	d.quiesce()
	return ev
}
