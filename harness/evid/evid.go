// Package evid is the worker side of the result protocol: one worker process runs one batch of one
// property's workload and leaves result.json (+ hashes.bin, wal.log) in its output directory. The
// supervisor (bin/check) merges batches, attributes crashes and race reports, applies the
// known-findings file and writes /verif/evidence/<id>.json.
package evid

import (
	"encoding/binary"
	"encoding/json"
	"fmt"
	"os"
	"path/filepath"
	"sort"
	"sync"
	"time"

	"verifharness/gen"
)

type Violation struct {
	// Stable identification of *what* failed (call site / input shape / history shape), used to
	// match the known-findings file and to de-duplicate.
	Signature string `json:"signature"`
	Detail    string `json:"detail"`
	Replay    any    `json:"replay,omitempty"`
}

type Result struct {
	Property     string           `json:"property"`
	Tier         string           `json:"tier"`
	Seed         uint64           `json:"seed"`
	Batch        int              `json:"batch"`
	NBatch       int              `json:"nbatch"`
	Evaluations  int64            `json:"evaluations"`
	Distinct     int64            `json:"distinct"`
	Counters     map[string]int64 `json:"counters"`
	Samples      []any            `json:"samples"`
	Violations   []Violation      `json:"violations"`
	Inconclusive []string         `json:"inconclusive"`
	Exhaustive   *bool            `json:"exhaustive,omitempty"`
	// Floors: counters that must reach a minimum over the WHOLE run (all batches together) for the
	// verdict "held" to mean anything. The supervisor sums the counters and checks.
	Floors map[string]int64 `json:"floors,omitempty"`
	WallS        float64          `json:"wall_s"`
	Done         bool             `json:"done"`
}

type Ctx struct {
	Prop   string
	Tier   string
	Seed   uint64
	Batch  int
	NBatch int
	OutDir string
	R      *gen.Rand

	mu      sync.Mutex
	res     Result
	hashes  map[uint64]struct{}
	wal     *os.File
	start   time.Time
	sigSeen map[string]int
}

const maxHashes = 50000
const maxViolations = 40
const maxSamples = 6

func NewCtx(prop, tier string, seed uint64, batch, nbatch int, outDir string) *Ctx {
	c := &Ctx{Prop: prop, Tier: tier, Seed: seed, Batch: batch, NBatch: nbatch, OutDir: outDir,
		hashes: map[uint64]struct{}{}, start: time.Now(), sigSeen: map[string]int{}}
	c.R = gen.New(seed, prop, tier, fmt.Sprint(batch))
	c.res = Result{Property: prop, Tier: tier, Seed: seed, Batch: batch, NBatch: nbatch, Counters: map[string]int64{}}
	if outDir != "" {
		os.MkdirAll(outDir, 0o755)
		f, err := os.Create(filepath.Join(outDir, "wal.log"))
		if err == nil {
			c.wal = f
		}
	}
	return c
}

func (c *Ctx) Quick() bool { return c.Tier != "thorough" }

// Scale picks the tier's size and divides it among batches (at least 1 each).
func (c *Ctx) Scale(quick, thorough int) int {
	n := quick
	if !c.Quick() {
		n = thorough
	}
	per := n / c.NBatch
	if per < 1 {
		per = 1
	}
	return per
}

// WAL records what is about to be done, before doing it, so a crash names its input.
func (c *Ctx) WAL(format string, a ...any) {
	if c.wal == nil {
		return
	}
	c.mu.Lock()
	fmt.Fprintf(c.wal, format+"\n", a...)
	c.mu.Unlock()
}

func (c *Ctx) Eval(n int) {
	c.mu.Lock()
	c.res.Evaluations += int64(n)
	c.mu.Unlock()
}

// Distinct registers a non-trivial case by hash.
func (c *Ctx) Distinct(h uint64) {
	c.mu.Lock()
	if len(c.hashes) < maxHashes {
		c.hashes[h] = struct{}{}
	}
	c.mu.Unlock()
}

func (c *Ctx) Count(name string, n int) {
	c.mu.Lock()
	c.res.Counters[name] += int64(n)
	c.mu.Unlock()
}

func (c *Ctx) Counter(name string) int64 {
	c.mu.Lock()
	defer c.mu.Unlock()
	return c.res.Counters[name]
}

func (c *Ctx) Sample(v any) {
	c.mu.Lock()
	if len(c.res.Samples) < maxSamples {
		c.res.Samples = append(c.res.Samples, v)
	}
	c.mu.Unlock()
}

func (c *Ctx) WantSample() bool {
	c.mu.Lock()
	defer c.mu.Unlock()
	return len(c.res.Samples) < maxSamples
}

// Violation records a refutation. Returns false once enough have been collected for the caller to
// stop early.
func (c *Ctx) Violation(signature, detail string, replay any) bool {
	c.mu.Lock()
	defer c.mu.Unlock()
	c.sigSeen[signature]++
	if c.sigSeen[signature] <= 3 && len(c.res.Violations) < maxViolations {
		c.res.Violations = append(c.res.Violations, Violation{signature, detail, replay})
	}
	if c.wal != nil {
		fmt.Fprintf(c.wal, "VIOLATION %s: %s\n", signature, detail)
	}
	return len(c.res.Violations) < maxViolations
}

func (c *Ctx) NumViolations() int {
	c.mu.Lock()
	defer c.mu.Unlock()
	return len(c.res.Violations)
}

func (c *Ctx) Inconclusive(why string) {
	c.mu.Lock()
	if len(c.res.Inconclusive) < 20 {
		c.res.Inconclusive = append(c.res.Inconclusive, why)
	}
	c.mu.Unlock()
}

// Floor declares that the named counter must reach min over all batches of the run.
func (c *Ctx) Floor(name string, min int64) {
	c.mu.Lock()
	if c.res.Floors == nil {
		c.res.Floors = map[string]int64{}
	}
	c.res.Floors[name] = min
	c.mu.Unlock()
}

func (c *Ctx) SetExhaustive(b bool) {
	c.mu.Lock()
	c.res.Exhaustive = &b
	c.mu.Unlock()
}

// Finish writes result.json and hashes.bin.
func (c *Ctx) Finish() error {
	c.mu.Lock()
	defer c.mu.Unlock()
	c.res.Distinct = int64(len(c.hashes))
	c.res.WallS = time.Since(c.start).Seconds()
	c.res.Done = true
	if c.OutDir == "" {
		b, _ := json.MarshalIndent(c.res, "", " ")
		fmt.Println(string(b))
		return nil
	}
	hs := make([]uint64, 0, len(c.hashes))
	for h := range c.hashes {
		hs = append(hs, h)
	}
	sort.Slice(hs, func(i, j int) bool { return hs[i] < hs[j] })
	hb := make([]byte, 8*len(hs))
	for i, h := range hs {
		binary.LittleEndian.PutUint64(hb[8*i:], h)
	}
	if err := os.WriteFile(filepath.Join(c.OutDir, "hashes.bin"), hb, 0o644); err != nil {
		return err
	}
	b, err := json.MarshalIndent(c.res, "", " ")
	if err != nil {
		return err
	}
	if c.wal != nil {
		c.wal.Close()
	}
	tmp := filepath.Join(c.OutDir, "result.json.tmp")
	if err := os.WriteFile(tmp, b, 0o644); err != nil {
		return err
	}
	return os.Rename(tmp, filepath.Join(c.OutDir, "result.json"))
}
